#!/venv/bin/python
import json, sys
d = json.load(open(sys.argv[1]))
w = d["world"]
print("property", d["property"], "sig", d["violation"]["signature"])
print("detail:", d["violation"]["detail"])
print("world:", {k: w[k] for k in w if k not in ("weights",)})
for e in d["trace"]:
    print("  ", json.dumps(e))
