#!/venv/bin/python
"""addfinding.py fixed|open <prop> <commit-or-signature> <replay.json> <witness-name> <what...>"""
import shutil, sys, os
status, prop, cs, replay, name = sys.argv[1:6]
what = " ".join(sys.argv[6:])
dst = "findings/%s-%s.json" % (prop, name)
shutil.copy(replay, os.path.join("/verif", dst))
with open("/verif/KNOWN_FINDINGS.txt", "a") as f:
    if status == "fixed":
        f.write("fixed: property=%s %s %s witness=%s\n" % (prop, cs, what, dst))
    else:
        f.write("open: property=%s signature=%s %s witness=%s\n" % (prop, cs, what, dst))
print("added", dst)
