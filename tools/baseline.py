#!/venv/bin/python
"""Run the repository's pinned test suite and compare with BASELINE.json's stable_pass list."""
import json, subprocess, sys, tempfile, os
import xml.etree.ElementTree as ET
repo = os.environ.get("VERIF_REPO", "/repo")
base = json.load(open("/root/.vp/BASELINE.json"))
with tempfile.TemporaryDirectory() as td:
    xml = os.path.join(td, "j.xml")
    env = dict(os.environ); env.pop("SPYDRNET_VERIF", None)
    subprocess.run(["/venv/bin/python", "-m", "pytest", "-q", "-p", "no:cacheprovider", "--timeout=900",
                    "--continue-on-collection-errors", "--junitxml=" + xml], cwd=repo, env=env,
                   stdout=subprocess.DEVNULL, stderr=subprocess.DEVNULL)
    passed = set()
    failed = set()
    for tc in ET.parse(xml).getroot().iter("testcase"):
        tid = "%s::%s" % (tc.get("classname"), tc.get("name"))
        bad = any(c.tag in ("failure", "error", "skipped") for c in tc)
        (failed if bad else passed).add(tid)
want = set(base["stable_pass"])
missing = sorted(want - passed)
print("stable_pass=%d passed_now=%d missing=%d" % (len(want), len(passed & want), len(missing)))
for m in missing[:20]:
    print("  NOT PASSING:", m)
sys.exit(1 if missing else 0)
