#!/bin/sh
# mutant.sh <patch-file> <property> [runs]  - run a property's check against a patched scratch copy of /repo
# The copy lives under a fresh mktemp -d and is removed afterwards.  Evidence of /verif is restored.
set -e
patch=$(readlink -f "$1"); prop=$2; runs=${3:-}
d=$(mktemp -d /tmp/mut.XXXXXX)
trap 'rm -rf "$d"' EXIT
cp -r /repo/spydrnet "$d/spydrnet"
ln -s /repo/example_netlists "$d/example_netlists"
(cd "$d" && patch -p1 -s < "$patch")
cd /verif
cp evidence/$prop.json "$d/ev.bak" 2>/dev/null || true
if [ -n "$runs" ]; then extra="--runs $runs"; else extra=""; fi
set +e
VERIF_REPO="$d" ./check run $prop $extra > "$d/out.txt" 2>&1
rc=$?
set -e
grep -E "^VIOLATION|^HARNESS|^ok:|^  C[0-9]" "$d/out.txt" | head -5
cp "$d/ev.bak" evidence/$prop.json 2>/dev/null || true
echo "exit=$rc"
exit 0
