#!/bin/sh
# Re-run every registered quick command (as MANIFEST.json lists them) so that evidence/ holds what a quick run writes.
cd /verif
for id in C01 C02 C03 C04 C05 C06 C07 C08 C09 C10 C11 C12 C13 C14 C15 C16 C17 C18 C19 C20; do
  s=$(date +%s)
  out=$(./check run $id --tier quick 2>&1 | grep -E "^ok:|^VIOLATION|^HARNESS" | head -2)
  e=$(date +%s)
  echo "$id $((e-s))s $out"
done
