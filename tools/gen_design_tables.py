#!/venv/bin/python
"""gen_design_tables.py - regenerate the generated parts of DESIGN.md (between <!-- gen:NAME --> markers).

  seeded   : section 16, from seeded/*/meta.json and selftest/sensitivity.json
"""
import glob, json, os, re, textwrap

HOME = "/verif"


def seeded():
    out = []
    sens = {}
    p = os.path.join(HOME, "selftest", "sensitivity.json")
    if os.path.exists(p):
        rows = json.load(open(p))
        for row in rows:
            sens[row["change"]] = row
    out.append("Each change below was written by a fresh sub-agent that saw only the text of one property and a scratch")
    out.append("worktree of the repository. For each I confirmed in that worktree that the pinned suite still passes")
    out.append("(578/578 of the baseline's stable tests), that the demonstration exits 1 with the change and 0 without it,")
    out.append("and then ran the property's *quick* command against a patched scratch copy (`tools/mutant.sh`).")
    out.append("`seeded/<id>/` holds `patch.diff`, `demo.py` and `meta.json` (what I ran, what it needs to manifest).")
    out.append("")
    metas = [json.load(open(x)) for x in sorted(glob.glob(os.path.join(HOME, "seeded", "*", "meta.json")))]
    rounds = {}
    for m in metas:
        rnd = m["name"].split("-")[0] if "-" in m["name"] else "r1"
        missed = "MISSED" in m.get("history", "")
        t = rounds.setdefault(rnd, [0, 0, []])
        t[0] += 1
        if missed:
            t[1] += 1
            t[2].append(m["name"])
    if sens:
        bad = [r for r in rows if r["expected"] != r["observed"]]
        deep = [r for r in rows if r["depth"] != "quick"]
        cpath = os.path.join(HOME, "selftest", "sensitivity.commit")
        commit = open(cpath).read().strip() if os.path.exists(cpath) else "?"
        out.append("Last full run of the sensitivity self-test (`./check selftest sensitivity`, /verif at commit %s): %d changes "
                   "(change x check pairs; %d seeded changes, %d reverted fixes), %d not as expected, %d needed the deeper search (60000 runs / 300 s) "
                   "instead of the quick command." % (commit, len(rows), sum(1 for r in sens if r.startswith("seeded/")),
                                                     sum(1 for r in sens if r.startswith("mutants/")), len(bad), len(deep)))
        out.append("")
    out.append("| round | changes | missed by the property's check at first evaluation | all caught now |")
    out.append("|---|---|---|---|")
    for rnd in sorted(rounds):
        n, k, names = rounds[rnd]
        now = all(any(v["exit"] == "exit=1" for v in m["checks"].values()) or
                  all(c in m.get("out_of_scope", {}) for c in m["checks"])      # (neutralised by a later fix)
                  for m in metas if (m["name"].split("-")[0] if "-" in m["name"] else "r1") == rnd)
        out.append("| %s | %d | %d (%s) | %s |" % (rnd, n, k, ", ".join(names) or "-", "yes" if now else "NO"))
    out.append("")
    out.append("Rounds: r1 asked for any change that breaks the property; r2-r18 told the sub-agent which functions the")
    out.append("earlier rounds had already changed and asked for a different function, file, clause or kind of mistake.")
    out.append("Every miss was answered by widening a generator or adding an oracle (never by special-casing the change);")
    out.append("the `history` line of each entry says what was missing.")
    out.append("")
    for meta in sorted(glob.glob(os.path.join(HOME, "seeded", "*", "meta.json"))):
        m = json.load(open(meta))
        name = m["name"]
        out.append("**%s** (property %s)" % (name, m["property"]))
        out.append("")
        out.append("* needs: %s" % m.get("needs", "?"))
        for c, v in m["checks"].items():
            first = (v["output"] or ["?"])[0]
            sig = first.split(":")[0].strip()
            oos = m.get("out_of_scope", {}).get(c)
            out.append("* check %s: %s - `%s`%s" % (c, "CAUGHT" if v["exit"] == "exit=1" else "missed", sig,
                                                   (" (not expected to see it: %s)" % oos) if oos else ""))
        s = sens.get("seeded/" + name)
        if s:
            out.append("* sensitivity self-test: expected %s, observed %s (%s)" % (s["expected"], s["observed"], s["depth"]))
        h = m.get("history", "")
        if h and not h.startswith("first evaluation: caught"):
            out.append("* history: %s" % h)
        out.append("")
    rev = [r for r in sens.values() if r["change"].startswith("mutants/")]
    if rev:
        out.append("**Reverted fixes** (`mutants/<property>-revert-<commit>.patch`: the reverse of one `fix:` commit of")
        out.append("/repo, applied to a scratch copy; the witness replays are switched off with `VERIF_NO_WITNESS=1` so that")
        out.append("the *search* has to find the defect again; `quick` = the quick command, otherwise the escalated depth):")
        out.append("")
        out.append("| change | check | observed | depth | first signature |")
        out.append("|---|---|---|---|---|")
        for r in sorted(rev, key=lambda r: r["change"]):
            out.append("| %s | %s | %s | %s | `%s` |" % (r["change"].replace("mutants/", ""), r["check"], r["observed"], r["depth"],
                                                        r["detail"].split(":")[0].strip()[:70]))
        out.append("")
        out.append("Reverse patches of fix commits that no longer apply to the current tree (later fixes rewrote the same")
        out.append("lines) are not kept as mutants.")
    return "\n".join(out)


def findings():
    out = ["| property | status | what failed | witness |", "|---|---|---|---|"]
    n_fixed = n_open = 0
    for line in open(os.path.join(HOME, "KNOWN_FINDINGS.txt")):
        line = line.strip()
        if not line or line.startswith("#"):
            continue
        status, rest = line.split(": ", 1)
        m = re.match(r"property=(C\d\d) (\S+) (.*?)(?: witness=(\S+))?$", rest)
        if not m:
            continue
        prop, tag, what, wit = m.groups()
        if status == "fixed":
            n_fixed += 1
            st = "fixed `%s`" % tag
        else:
            n_open += 1
            st = "**open** `%s`" % tag.replace("signature=", "")
        out.append("| %s | %s | %s | %s |" % (prop, st, what.replace("|", "/"), ("`%s`" % wit) if wit else ""))
    out.append("")
    out.append("%d findings repaired by `fix:` commits in /repo, %d open." % (n_fixed, n_open))
    return "\n".join(out)


GEN = {"seeded": seeded, "findings": findings}


def main():
    path = os.path.join(HOME, "DESIGN.md")
    s = open(path).read()
    for name, fn in GEN.items():
        a, b = "<!-- gen:%s -->" % name, "<!-- /gen:%s -->" % name
        if a in s:
            i, j = s.index(a) + len(a), s.index(b)
            s = s[:i] + "\n" + fn() + "\n" + s[j:]
    open(path, "w").write(s)


main()
