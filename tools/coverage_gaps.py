#!/venv/bin/python
"""coverage_gaps.py <Cxx> [n_runs] - which lines of the property's anchor files does the check's search never execute?

A development aid (not a check): runs n runs of the property's quick configuration in this process under
coverage.py and prints, for every file the property is anchored in, the line ranges that were never executed.
Lines nobody executes are lines where no change can be noticed; the list is read by hand to decide which generator to
widen next.  Usage:  tools/coverage_gaps.py C13 400
"""
import json, os, sys
HOME = "/verif"
REPO = os.environ.get("VERIF_REPO", "/repo")
os.environ.setdefault("VERIF_HOME", HOME)
os.environ.setdefault("VERIF_REPO", REPO)
os.environ.setdefault("EXAMPLE_NETLISTS_PATH", REPO + "/example_netlists")
os.environ.setdefault("SPYDRNET_LOG_LEVEL", "CRITICAL")
sys.path[:0] = [HOME, REPO]
import coverage

prop_id = sys.argv[1]
n = int(sys.argv[2]) if len(sys.argv) > 2 else 300
anchors = []
for line in open(os.path.join(HOME, "properties.jsonl")):
    d = json.loads(line)
    if d["id"] == prop_id:
        anchors = d["anchors"]["files"]
cov = coverage.Coverage(source=[REPO + "/spydrnet"], data_file=None, branch=False)
cov.start()
from simkit import runner, engine
prop = runner.load_prop(prop_id)
w = runner.world()
bad = 0
for i in range(n):
    try:
        r = engine.run_one(prop, w, 0, i, "quick")
        if r.violation is not None and not str(r.violation.signature) in getattr(prop, "known", ()):
            bad += 1
    except Exception as x:
        bad += 1
cov.stop()
print("%s: %d runs (%d ended in a violation/known finding or harness exception)" % (prop_id, n, bad))
for f in anchors:
    path = os.path.join(REPO, f)
    if os.path.isdir(path):
        files = [os.path.join(dp, x) for dp, _, fs in os.walk(path) for x in fs if x.endswith(".py") and "/tests" not in dp]
    else:
        files = [path]
    for p in sorted(files):
        try:
            _, stmts, _, missing, fmt = cov.analysis2(p)
        except Exception as x:
            print("  %s: %s" % (p, x))
            continue
        print("  %s: %d/%d statements never executed: %s" % (p.replace(REPO + "/", ""), len(missing), len(stmts), fmt))
