#!/venv/bin/python
"""seeded_eval.py <Cxx> [name] [check ids...]  - take a sub-agent's change from /tmp/wt_<Cxx>, confirm it, run checks.

Confirms (in the agent's scratch worktree, which has the change applied):
  1. the pinned test suite still passes (tools/baseline.py with VERIF_REPO=<worktree>)
  2. the demonstration exits 1 with the change and 0 without it
Then runs the quick command of the property's check (and any further checks named) against a patched scratch copy
(tools/mutant.sh) and stores patch, demonstration and meta.json under /verif/seeded/<name>/.
"""
import json, os, shutil, subprocess, sys

pid = sys.argv[1]
name = sys.argv[2] if len(sys.argv) > 2 and not sys.argv[2].startswith("C") else pid
checks = [a for a in sys.argv[2:] if a.startswith("C") and len(a) == 3] or [pid]
wt = "/tmp/wt_%s" % pid
patch = os.path.join(wt, "patch_%s.diff" % pid)
demo = os.path.join(wt, "demo_%s.py" % pid)
env = dict(os.environ, HOME="/nonexistent", PYTHONPATH=wt, EXAMPLE_NETLISTS_PATH=wt + "/example_netlists")


def sh(cmd, **kw):
    return subprocess.run(cmd, shell=True, capture_output=True, text=True, **kw)


meta = {"property": pid, "name": name, "ran": []}
# regenerate the patch from the worktree to be sure it is what is applied
d = sh("git -C %s diff -- spydrnet" % wt).stdout
if d.strip():
    open(patch, "w").write(d)
r = sh("/verif/tools/baseline.py", env=dict(env, VERIF_REPO=wt))
meta["tests_with_change"] = r.stdout.strip().split("\n")[0]
meta["ran"].append("VERIF_REPO=%s tools/baseline.py -> %s" % (wt, meta["tests_with_change"]))
r1 = sh("/venv/bin/python %s" % demo, cwd=wt, env=env)
sh("git -C %s apply -R %s" % (wt, patch))   # (git stash is shared between worktrees: not used)
r0 = sh("/venv/bin/python %s" % demo, cwd=wt, env=env)
sh("git -C %s apply %s" % (wt, patch))
meta["demo_exit_with_change"] = r1.returncode
meta["demo_exit_without_change"] = r0.returncode
meta["demo_output"] = (r1.stdout + r1.stderr).strip().split("\n")[-3:]
meta["ran"].append("demo with change -> exit %d; with the change stashed -> exit %d" % (r1.returncode, r0.returncode))
out = os.path.join("/verif/seeded", name)
os.makedirs(out, exist_ok=True)
shutil.copy(patch, os.path.join(out, "patch.diff"))
shutil.copy(demo, os.path.join(out, "demo.py"))
meta["checks"] = {}
for c in checks:
    r = sh("/verif/tools/mutant.sh %s %s" % (os.path.join(out, "patch.diff"), c))
    lines = [l for l in r.stdout.strip().split("\n") if l]
    meta["checks"][c] = {"exit": lines[-1] if lines else "?", "output": lines[:-1][:3]}
    meta["ran"].append("tools/mutant.sh seeded/%s/patch.diff %s -> %s" % (name, c, lines[-1] if lines else "?"))
old_meta = os.path.join(out, "meta.json")
if os.path.exists(old_meta):
    try:
        prev = json.load(open(old_meta))
        for k in ("needs", "history", "out_of_scope"):
            if k in prev and k not in meta:
                meta[k] = prev[k]
    except ValueError:
        pass
json.dump(meta, open(os.path.join(out, "meta.json"), "w"), indent=1)
print(json.dumps(meta, indent=1))
