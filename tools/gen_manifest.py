#!/venv/bin/python
"""Generate /verif/MANIFEST.json from the table below (single source of truth)."""
import json, os, sys
sys.path.insert(0, "/verif")

FIT = {
    "A": "fit A: the property quantifies over histories / faults / environment nondeterminism; simulation is the natural decider",
    "B": "fit B: write-then-recover through the simulated disk and stream; the generated design is the dominant dimension",
    "C": "fit C: the function under test is pure; the simulator contributes the history that built its input, hash-order control, replay and shrinking only - thinnest use of the technique",
}
TECH = "deterministic simulation with fault injection: seeded search over simulated runs (histories, fault sequences, hash orders, GC points) against executable reference oracles"

# id -> (engine, fit, level text, level note)
CHECKS = {
 "C01": ("iredit", "A", "Seeded search over histories of public IR mutator calls (valid and hostile arguments, proxy outer pins, bulk removes under PRNG-chosen set order, GC events); the link-consistency oracle runs over the closure of every object after every event. Sampling, not proof.",
         "Trusts the IR read accessors; arguments are always of the documented kind; identity hashes and GC schedule are simulator-owned stubs, everything else is the real code."),
 "C02": ("iredit", "A", "Seeded search over histories biased to instanced definitions (port/pin add/remove/reorder, reference changes, top instances, clones); mirror oracle after every event plus the re-point postcondition.",
         "Trusts the IR read accessors; arguments are always of the documented kind."),
 "C14": ("iredit", "A", "Seeded search over hostile histories (one violated precondition or a colliding/illegal name per call, compound constructors); identity-level snapshot + lookup answers + process settings compared around every refused call.",
         "Any exception raised by an editing call counts as a refusal; lookup answers are read through global_service.lookup; listener vetoes are not a refusal cause of this property."),
 "C19": ("iredit", "A", "Seeded search over histories of editing calls with simulator-owned listeners (announcement-driven shadows, passive, gc-inside-callback, head-of-event veto) registered and removed at seeded points; every shadow is compared with the real state after every event, and the same trace without third-party listeners must behave identically.",
         "Order inside containers is not part of the mirror (announcements carry no position); after a simulator veto the shadows are re-synchronised; vetoes are injected only at the first announcement of an event."),
 "C10": ("iredit", "A", "Seeded search over naming histories (create/add/remove/re-add, rename, identifier set/delete/pop, clone, policy switches, GC) under both policies; after every event every scope is queried through the public get_* functions for every present value and its case variant and compared with a list scan; ValueError outcomes are compared with an independent duplicate/illegal/compliance prediction made before the call.",
         "A parent's policy is its own '.NS' entry; the '.NS' entry itself is not edited by the workload; one open finding (first_of_duplicates under DEFAULT identifiers) is listed in KNOWN_FINDINGS.txt."),
 "C03": ("disk", "B", "Seeded search over EDIF-expressible netlists (generated hierarchical designs declared in non-dependency order, awkward names, three property types; bundled examples) written to the simulated disk, optionally across a simulated process restart, read back under a seeded short-read law, and round-tripped once more; name-level canonical forms and an independent s-expression reading of the file are compared.",
         "Port base indices are not compared; libraries and cells are name-keyed sets; two open findings (bus with '&_' identifier, negative base index) are listed in KNOWN_FINDINGS.txt."),
 "C07": ("iredit+hier", "A", "Seeded search: a netlist built by the hierarchical generator or a free edit history, one clone() of a random element of any kind with every documented postcondition checked (closure, structure, deep data, bookkeeping, source unchanged), then a second seeded history (edits, uniquify, flatten) on one side while the other side's identity-level snapshot must not change.",
         "Closure/independence are demanded only when the source netlist is self-contained; a refused clone of a source whose pins reach wires outside it is accepted if nothing changed."),
 "C08": ("hier", "C", "Seeded search over generated sharing patterns (incl. names a previous process' uniquify could have left behind, counter start values); independent elaboration before == after, uniqueness along every path, well-formedness, new definitions findable, second call is a no-op.",
         "Pure function of the netlist except for the process-wide name counter, which the restart fault exercises."),
 "C09": ("hier", "C", "Seeded search over generated hierarchical designs (pass-through and wire-only cells, inner nets on several ports, unconnected sides, bus ports), uniquified and flattened; the independent elaboration before is compared with a direct reading of the top definition after.",
         "Instance names contain no '/'; user data compared excludes keys flatten is allowed to rewrite."),
 "C11": ("hier", "A", "Seeded search: generated designs, then seeded sequences of get_h* queries over every root kind (held or dropped), GC events, path-breaking edits, re-check of held references; results are compared with an independent path enumeration, names, validity, uniqueness and flyweight identity.",
         "Exact-set expectations only for roots whose meaning the statement fixes; queries on a design that is not self-contained are skipped."),
 "C12": ("hier", "C", "Seeded search: generated designs and sampled start points of every kind traced with selection ALL/INSIDE/OUTSIDE and get_hpins, compared with equivalence classes of an independent union-find elaboration.",
         "Designs are built by valid API calls only (well-formed, self-contained)."),
 "C13": ("hier", "C", "Seeded search over designs with colliding names/identifiers/user keys under both policies and 20-60 sampled query shapes each; metamorphic oracle: every pattern/option variant must equal the unfiltered result restricted to matching values, without duplicates, independent of pattern order and of the fast lookup being registered.",
         "Hierarchical queries below a netlist / instance reference match names relative to the root; one open finding (exact pattern returns the first of several equal values) is listed."),
 "C16": ("disk", "A", "Seeded search: a composable netlist (generated for EDIF, bundled examples parsed through the simulated disk for all three formats) composed twice to the simulated file system with seeded options, queries/GC/clock jumps in between, ENOSPC injected into some first writes; identity-level snapshot, text equality modulo timeStamp, open-handle table and file completeness are checked.",
         "Permitted EDIF side effects: dependency-respecting reorder and added EDIF.identifier/EDIF.rename entries."),
 "C17": ("disk", "B", "Seeded search over adversarial sibling names in every scope; identifiers checked against an independent EDIF grammar and for case-insensitive uniqueness; the exported file is read back and the names compared.",
         "Names contain no double quote/newline/percent; whole cables are not named stem[digits]; one open finding (bus with '&_' identifier) is listed."),
 "C04": ("textgen+disk", "B", "Seeded search: netlists parsed from generated structural Verilog (or bundled examples), optionally transformed by uniquify/flatten/clone, written with seeded options to the simulated disk, optionally across a process restart, and parsed again; modules, ports, cables, instances and the bit-level endpoint partition are compared before and after.",
         "Names are compared modulo Verilog escaping; modules nothing instantiates any more are compared by ports only; one open finding (assign spread over several cables after flatten) is listed."),
 "C05": ("textgen", "B", "Seeded search: abstract designs rendered to EDIF by an independent writer with seeded syntactic freedom (keyword and reference case, renames, member indices, bus bits in any order with gaps, comments, property types, design construct anywhere), parsed from the simulated disk under a seeded chunk law / policy / listener configuration and compared with the form derived from the design.",
         "Port base indices are not compared; bus nets get plain names; the configuration 'namespace plugin deregistered' is combined with exact-case references only."),
 "C06": ("textgen", "B", "Seeded search: abstract designs rendered to structural Verilog by an independent writer (any module order, ANSI / header-only ports, named and positional maps, selects, concatenations, constants, implied nets, escaped identifiers, celldefine or undeclared primitives, parameters, attributes, assigns), parsed from the simulated disk under a seeded chunk law and compared bit by bit with the model.",
         "Module ports based at 0; equal-width assigns; no positional maps on never-declared primitives."),
 "C18": ("textgen+disk", "B", "Seeded search: abstract flat designs rendered to EBLIF by an independent writer (statement order, .conn, unconn, continuations, comments, black boxes declared or not), parsed and compared with the model, then written, optionally across a restart, re-read and compared by instance name and pin partition.",
         "The design is the first model of the file unless an instantiated black box precedes it; latch 'type'/'init-val' fields are not nets; .cname values are not net names."),
 "C20": ("disk+hier", "C", "Seeded search: a named netlist, a faithful copy (clone, write-then-read in its own format, or parsing the same file twice), one Comparer run that must return, exactly one effective structural fault from the documented list on the copy, one Comparer run that must raise.",
         "Names contain no wildcard characters; designs avoid the open EDIF round-trip findings so that copies are faithful."),
 "C15": ("corrupt", "A", "Seeded search over fault plans on valid EDIF/Verilog/EBLIF texts (truncation at a token boundary or at any character, token deletion/duplication/replacement, dangling EDIF references, unsupported EDIF constructs, EIO on the r-th read, short reads); every reader call runs under a virtual step budget (50x the fault-free line count); results that are returned must be well-formed, must-raise cases must raise, process-wide settings must be unchanged after success and after rejection, and after 0-4 follow-up parses and edits a fixed probe script must behave as in a fresh process. The thorough tier adds complete single-fault sweeps (every token boundary / every token) over generated texts of at most 400 tokens.",
         "Any exception counts as 'raising an error'; the step budget counts executed lines of the tokenizer/parser modules (sys.monitoring); a wall-clock backstop is a harness error, never a violation."),
}

def main():
    props = [json.loads(l) for l in open("/verif/properties.jsonl")]
    checks = []
    na = []
    for p in props:
        pid = p["id"]
        if pid in CHECKS:
            engine, fit, text, note = CHECKS[pid]
            checks.append({
                "property_id": pid,
                "quick_cmd": "./check run %s --tier quick" % pid,
                "thorough_cmd": "./check run %s --tier thorough" % pid,
                "evidence_file": "/verif/evidence/%s.json" % pid,
                "replay_cmd_template": "./check replay {path}",
                "engine": engine,
                "level_claimed": {"category": "exploration", "text": text, "design_ref": "DESIGN.md section 6 (%s)" % pid},
                "level_note": note + " " + FIT[fit[0]] + ".",
                "technique": TECH,
            })
        else:
            na.append({"property_id": pid, "reason": "check not built yet in this session (work in progress; see DESIGN.md section 6 for the plan) - not a claim that the technique cannot apply"})
    engines = {}
    for c in checks:
        engines.setdefault(c["engine"], []).append(c["property_id"])
    m = {
        "version": 1,
        "setup_cmd": "./check selftest setup",
        "hooks": {
            "guard": "SPYDRNET_VERIF",
            "enable": "no hooks were added to /repo: every seam is reached by attribute injection from /verif (DESIGN.md section 1); the guard name is reserved and unused",
            "baseline_off_cmd": "cd /repo && /venv/bin/python -m pytest -ra -q -p no:cacheprovider --timeout=900 --continue-on-collection-errors",
            "source_commits": [],
            "add_only": True,
        },
        "engines": [{"name": k, "path": "/verif/simkit", "serves_properties": v,
                     "kind_free_text": "seeded event-loop simulator over the real spydrnet API"} for k, v in sorted(engines.items())],
        "checks": checks,
        "not_applicable": na,
        "notes": "All checks run through ./check, which re-execs /venv/bin/python in a scrubbed environment with PYTHONPATH=/verif:/repo, so the code under test is always /repo's working tree. KNOWN_FINDINGS.txt lists fixed/open findings; replays/ is git-ignored.",
    }
    json.dump(m, open("/verif/MANIFEST.json", "w"), indent=1)
    import jsonschema
    jsonschema.validate(m, json.load(open("/root/.vp/MANIFEST.schema.json")))
    print("MANIFEST ok: %d checks, %d not claimed" % (len(checks), len(na)))

main()
