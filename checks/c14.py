"""C14 - a refused edit changes nothing."""
from simkit.engine import Prop
from simkit.gen_iredit import swarm_config
from simkit.model import Snapshot
from simkit.oracles.naming import lookup_answers, event_strings
from simkit.violation import Violation
from simkit.world import World, kind_of
from checks.c01 import REAL, STUB


class C14(Prop):
    id = "C14"
    engine = "iredit"
    fit = "A"
    rule = ("one evaluation = one seeded history with high hostility (arguments violating exactly one "
            "precondition, colliding or illegal names, compound constructors); an identity-level snapshot of "
            "the closure of all objects, all exact-name lookup answers and the process-wide settings is taken "
            "before every call and compared after every refused call; non-trivial = at least one call was "
            "refused; distinct = distinct (event-kind multiset, final fingerprint) pairs")
    components_real = REAL
    components_stub = STUB
    assumptions = ["read accessors of the IR report the stored state",
                   "lookup answers are read through spydrnet.global_state.global_service.lookup, the function "
                   "every get_* uses for exact patterns",
                   "any exception raised by an editing call counts as a refusal"]
    runs = {"quick": 5000, "thorough": 150000}

    def configure(self, rng, tier):
        cfg = swarm_config(rng, base={"name": 3.0, "build": 7.0, "attach": 4.0, "top": 1.5, "reference": 3.0,
                                      "ns": 0.3, "policy": 0.2, "clone": 0.05})
        cfg["hostility"] = rng.choice([0.4, 0.5, 0.6, 0.7])
        cfg["names"] = rng.choice(["collide", "collide", "plain"])
        cfg["name_rate"] = rng.choice([0.6, 0.95])
        cfg["policy_start"] = rng.choice(["DEFAULT", "DEFAULT", "EDIF"])
        return cfg

    def before(self, w, ev):
        snap = Snapshot(w.roots())
        looks = lookup_answers(snap.objs, event_strings(ev))
        return snap, looks, World.process_state_fingerprint()

    def after(self, w, ev, outcome, pre):
        if not outcome.startswith("refused"):
            return
        self.saw_refusal = True
        w.count("probe.refused_call_checked")
        snap, looks, glob = pre
        disc = "%s:%s" % (ev["op"], outcome.split(":", 1)[1])
        now = Snapshot(w.roots())
        d = snap.diff(now)
        if d is not None:
            o, field, a, b = d
            raise Violation("C14.snapshot.%s.%s" % (kind_of(o), field), disc,
                            "%s of %s changed although the call was refused" % (field, w.name_of(o)))
        looks2 = lookup_answers(snap.objs, event_strings(ev))
        if looks2 != looks:
            for k in looks:
                if looks2.get(k) != looks[k]:
                    raise Violation("C14.lookup.%s" % k[1], disc,
                                    "lookup of %r under %s in %s answers differently after the refused call" % (
                                        k[3], k[2], w.name_of(snap.byid[k[0]])))
        if World.process_state_fingerprint() != glob:
            raise Violation("C14.globals", disc, "process-wide settings changed by a refused call")


PROP = C14
