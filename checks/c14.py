"""C14 - a refused edit changes nothing."""
from simkit.engine import Prop
from simkit.gen_iredit import swarm_config
from simkit.model import Snapshot
from simkit.oracles.naming import lookup_answers, event_strings, SCOPES
from simkit.violation import Violation
from simkit.world import World, kind_of
from checks.c01 import REAL, STUB


class C14(Prop):
    id = "C14"
    engine = "iredit"
    fit = "A"
    rule = ("one evaluation = one seeded history with high hostility (arguments violating exactly one "
            "precondition, colliding or illegal names, compound constructors); an identity-level snapshot of "
            "the closure of all objects, all exact-name lookup answers and the process-wide settings is taken "
            "before every call and compared after every refused call; non-trivial = at least one call was "
            "refused; distinct = distinct (event-kind multiset, final fingerprint) pairs")
    components_real = REAL
    components_stub = STUB
    assumptions = ["read accessors of the IR report the stored state",
                   "lookup answers are read through spydrnet.global_state.global_service.lookup, the function "
                   "every get_* uses for exact patterns",
                   "any exception raised by an editing call counts as a refusal"]
    runs = {"quick": 5000, "thorough": 150000}

    def configure(self, rng, tier):
        cfg = swarm_config(rng, base={"name": 3.0, "build": 7.0, "attach": 4.0, "top": 1.5, "reference": 3.0,
                                      "ns": 0.3, "policy": 0.2, "clone": 0.05, "adopt": 0.5})
        cfg["hostility"] = rng.choice([0.4, 0.5, 0.6, 0.7])
        cfg["names"] = rng.choice(["collide", "collide", "plain"])
        cfg["name_rate"] = rng.choice([0.6, 0.95])
        cfg["policy_start"] = rng.choice(["DEFAULT", "DEFAULT", "EDIF"])
        # asking for lookups before every call makes the library build indexes it fills lazily; in a third of the runs
        # nothing is asked before the call and the answers after a refusal are compared with a scan instead
        cfg["lookups"] = rng.choice(["before_and_after", "before_and_after", "after_vs_scan"])
        return cfg

    def start(self, w, cfg):
        self.cfg = cfg
        self.saw_refusal = False

    def before(self, w, ev):
        snap = Snapshot(w.roots())
        looks = lookup_answers(snap.objs, event_strings(ev)) if self.cfg.get("lookups") != "after_vs_scan" else None
        return snap, looks, World.process_state_fingerprint()

    def after(self, w, ev, outcome, pre):
        if not outcome.startswith("refused"):
            return
        self.saw_refusal = True
        w.count("probe.refused_call_checked")
        snap, looks, glob = pre
        disc = "%s:%s" % (ev["op"], outcome.split(":", 1)[1])
        now = Snapshot(w.roots())
        d = snap.diff(now)
        if d is not None:
            o, field, a, b = d
            raise Violation("C14.snapshot.%s.%s" % (kind_of(o), field), disc,
                            "%s of %s changed although the call was refused" % (field, w.name_of(o)))
        looks2 = lookup_answers(snap.objs, event_strings(ev))
        if looks is None:
            # no answers from before the call: the state is unchanged (snapshot), so an exact lookup must return a
            # current member that carries the value, and nothing when no member carries it
            for (oid, ck, key, v), got in looks2.items():
                o = snap.byid[oid]
                if o.get(".NS") not in ("DEFAULT", "EDIF"):
                    # the reserved '.NS' entry of this scope (or of the tree it was built in) was deleted or overwritten
                    # by an earlier event: no policy guards its names, siblings may share one, and which of them an exact
                    # lookup answers is the open first-of-duplicates finding - nothing this refused call did
                    continue
                acc = [a for c2, a, cls, g in SCOPES[kind_of(o)] if c2 == ck][0]
                kids = [c for c in getattr(o, acc) if isinstance(c.get(key), str)]
                exact = [c for c in kids if c[key] == v]
                # identifiers may be matched ignoring case (which policy indexes a parent is the library's business,
                # also after the reserved '.NS' entries were edited): a case variant is an acceptable answer
                loose = [c for c in kids if c[key].lower() == v.lower()] if key == "EDIF.identifier" else exact
                members = exact
                if (got is None and exact) or (got is not None and got not in [id(c) for c in loose]):
                    raise Violation("C14.lookup.%s" % ck, disc,
                                    "lookup of %r under %s in %s after the refused call returns %s, a scan finds %d" % (
                                        v, key, w.name_of(o), "nothing" if got is None else "an element", len(members)))
        elif looks2 != looks:
            for k in looks:
                if looks2.get(k) != looks[k]:
                    raise Violation("C14.lookup.%s" % k[1], disc,
                                    "lookup of %r under %s in %s answers differently after the refused call" % (
                                        k[3], k[2], w.name_of(snap.byid[k[0]])))
        if World.process_state_fingerprint() != glob:
            raise Violation("C14.globals", disc, "process-wide settings changed by a refused call")


PROP = C14
