"""C03 - EDIF write-then-read returns the same netlist."""
from simkit.engine import Prop
from simkit.gen_hier import hier_config, Builder, ScriptGen
from simkit import corpus
from simkit.simfs import norm
from simkit.oracles.canon import named, dict_diff
from simkit.oracles import sexpr
from simkit.oracles.links import check_links
from simkit.oracles.mirror import check_mirror
from simkit.model import scan
from simkit.violation import Violation
from simkit.world import kind_of

REAL = ["spydrnet.composers.edif (composer, edifify_names)", "spydrnet.parsers.edif (tokenizer, parser)",
        "spydrnet.ir.*", "namespace manager plugin (EDIF policy during the parse)"]
STUB = ["file system (SimFS)", "read chunking (short reads)", "wall clock", "identity hash of IR objects "
        "(topological sort of libraries/cells iterates dependency sets)", "process restart between write and read"]

NAME_POOL = ["a", "A", "ab", "a_b", "n1", "x y", "a[0]", "a[1]", "1a", "a-b", "a/b", "\\esc ", "$x", "a.b", "q(0)", "a%b", "50%", "%1%", "A.b", "A-B", "a b", "X Y", "caf\u00e9", "\u00b5s"]


class C03(Prop):
    id = "C03"
    engine = "disk"
    fit = "B"
    rule = ("one evaluation = one EDIF-expressible netlist (a generated hierarchical design with multi-library "
            "references declared in non-dependency order, bus ports/cables with non-zero base, unconnected pins, "
            "empty nets, instance properties of three types, awkward names; or a bundled example) written to the "
            "simulated disk, optionally followed by a process restart, read back under a seeded chunk law, "
            "written and read once more; name-level canonical forms are compared (after first compose vs first "
            "re-read; first re-read vs second re-read) and an independent s-expression reading of the file is "
            "compared with the netlist; non-trivial = the design has at least one net with two endpoints; "
            "distinct = distinct (event-kind multiset, final fingerprint) pairs")
    relevant_ops = {"compose", "parse"}
    components_real = REAL
    components_stub = STUB
    assumptions = ["port base indices are not part of the comparison (the statement lists order, direction, width "
                   "and array-ness for ports)",
                   "libraries and cells are compared as name-keyed sets, everything inside a cell in order",
                   "names contain no double quote or newline (percent signs occur); every element is named; library dependencies acyclic",
                   "EDIF.identifier entries supplied by the user are legal and unique ignoring case in their scope "
                   "(the writer takes them as they are)"]
    runs = {"quick": 5000, "thorough": 120000}

    def configure(self, rng, tier):
        r = rng
        cfg = {"steps": 10 ** 6}
        if r.random() < 0.75:
            cfg.update(hier_config(r))
            cfg["source"] = "hier"
            cfg["upto_rate"] = r.choice([0.0, 0.3])
            cfg["acyclic_libs"] = True
            cfg["shuffle_order"] = r.random() < 0.7
            cfg["name_style"] = r.choice(["unique", "scoped", "scoped", "pool"])
            cfg["name_pool"] = NAME_POOL
            cfg["scoped_case"] = r.choice([0.0, 0.3])
            cfg["ident_rate"] = r.choice([0.0, 0.0, 0.3])
            cfg["edif_props"] = r.random() < 0.6
            cfg["array_rate"] = r.choice([0.0, 0.3])
            cfg["orphan_instance"] = False
            cfg["long_name_rate"] = r.choice([0.0, 0.0, 0.15])
            if cfg["lsb"] >= 0 and r.random() < 0.3:
                cfg["lsb"] = r.choice([9, 98, 999])   # bit indices with more digits than the width has
            if cfg["lsb"] < 0 and r.random() < 0.85:
                cfg["lsb"] = 2  # negative base indices are an open finding: explore them in few runs only
        else:
            cfg["source"] = "example"
            cfg["example"] = r.choice(corpus.names("edf", 12000 if tier == "quick" else 70000))
        cfg["chunk_law"] = r.choice(["whole", "32768", "1..64", "1..7"])
        cfg["restart"] = r.random() < 0.4
        cfg["third"] = cfg["source"] == "hier" and not cfg["restart"] and r.random() < 0.5
        cfg["policy_start"] = r.choice(["DEFAULT", "DEFAULT", "EDIF"])
        cfg["prior_rejected"] = r.random() < 0.2
        return cfg

    def make_gen(self, w, rng, cfg):
        ev = []
        if cfg["source"] == "hier":
            b = Builder(rng, cfg)
            ev = b.build()
            net = b.netlist
        else:
            ev.append({"op": "fs_put_example", "name": cfg["example"], "path": "sim://in.edf"})
            ev.append({"op": "parse", "path": "sim://in.edf", "tag": "source"})
            net = "e1.0"
        k = len(ev)
        ev.append({"op": "fs_config", "chunk_law": cfg["chunk_law"], "seed": cfg.get("hash_seed", 0) % (2 ** 31)})
        ev.append({"op": "compose", "on": net, "path": "sim://a.edf", "tag": "first"})
        if cfg["restart"]:
            ev.append({"op": "restart"})
        if cfg.get("prior_rejected"):
            # an earlier read, in the same process, of a cut-short copy of the same file: refused, and without
            # influence on the read under test
            ev.append({"op": "fs_damage", "src": "sim://a.edf", "dst": "sim://bad.edf", "prior": True,
                       "frac": rng.uniform(0.2, 0.97), "how": rng.choice(["cut", "cut", "garbage"])})
            ev.append({"op": "parse", "path": "sim://bad.edf", "prior": True})
        ev.append({"op": "parse", "path": "sim://a.edf", "tag": "reread"})
        p1 = len(ev) - 1
        ev.append({"op": "compose", "on": "e%d.0" % p1, "path": "sim://b.edf", "tag": "second"})
        ev.append({"op": "parse", "path": "sim://b.edf", "tag": "reread2"})
        if not cfg.get("third"):
            return ScriptGen(ev)
        # a third write of the SAME netlist object after it was edited (anything the writer remembered about
        # it from the first write is stale now): permuted pins of an instanced array port, renamed elements
        state = {"phase": 0, "left": rng.choice([1, 2, 3])}

        def more():
            n = w.h(net)
            if n is None or self.skip_rest:
                return None
            if state.get("swap"):
                b_h, v = state.pop("swap")
                return {"op": "set_name", "on": b_h, "v": v, "tag": "edit"}
            if state["phase"] == 0:
                state["left"] -= 1
                if state["left"] <= 0:
                    state["phase"] = 1
                defs = [d for lib in n.libraries for d in lib.definitions]
                x = rng.random()
                if x < 0.6:
                    ports = [p for d in defs for p in d.ports if len(p.pins) > 1 and len(d.references) > 0
                             and all(w.handle_of(q) for q in p.pins)]
                    if ports:
                        p = rng.choice(ports)
                        pins = list(p.pins)
                        k = rng.randrange(1, len(pins))
                        pins = pins[k:] + pins[:k]
                        return {"op": "set_pins", "on": w.handle_of(p), "xs": [w.handle_of(q) for q in pins], "tag": "edit"}
                if x < 0.8:
                    # two siblings trade places in the name space: A gets a fresh name and B takes the name that equals
                    # the identifier the first write recorded on A (references in the file go by identifier)
                    scopes = [list(n.libraries)] + [list(lib.definitions) for lib in n.libraries]
                    scopes += [list(getattr(d, acc)) for d in defs for acc in ("children", "cables", "ports")]
                    scopes = [[e for e in sc if w.handle_of(e) and isinstance(e.get("EDIF.identifier"), str)] for sc in scopes]
                    scopes = [sc for sc in scopes if len(sc) >= 2]
                    if scopes:
                        a, b2 = rng.sample(rng.choice(scopes), 2)
                        state["swap"] = (w.handle_of(b2), a["EDIF.identifier"])
                        return {"op": "set_name", "on": w.handle_of(a), "v": "moved_%d" % rng.randint(0, 10 ** 6), "tag": "edit"}
                kids = [c for d in defs for c in list(d.children) + list(d.cables) if w.handle_of(c)]
                if kids:
                    c = rng.choice(kids)
                    return {"op": "set_name", "on": w.handle_of(c), "v": "renamed_%d" % rng.randint(0, 10 ** 6), "tag": "edit"}
                state["phase"] = 1
            if state["phase"] == 1:
                state["phase"] = 2
                return {"op": "compose", "on": net, "path": "sim://c.edf", "tag": "third"}
            if state["phase"] == 2:
                state["phase"] = 3
                return {"op": "parse", "path": "sim://c.edf", "tag": "reread3"}
            return None
        return ScriptGen(ev, more)

    def start(self, w, cfg):
        self.form_a = None
        self.form_b = None
        self.form_c = None
        self.cfg = cfg
        self.skip_rest = False
        self.composed = False
        self.amp_bus = False
        self.negative_index = False

    def after(self, w, ev, outcome, pre):
        op = ev["op"]
        tag = ev.get("tag")
        if ev.get("prior"):
            if op == "parse":
                w.count("fault.prior_read_" + ("refused" if outcome != "ok" else "accepted"))
            return
        if not self.composed and op not in ("compose", "parse") and outcome != "ok":
            # an event of the build phase was refused (e.g. two generated identifiers collide): the netlist is
            # not the one the generator promised, so nothing is claimed about it
            self.skip_rest = True
            w.count("probe.build_incomplete")
        if op == "compose":
            self.composed = True
            if self.skip_rest:
                return
        if op == "compose":
            n = w.h(ev["on"])
            if n is None:
                return
            if outcome != "ok":
                # the generator promises an EDIF-expressible netlist: the writer must accept it
                msg = str(getattr(w, "last_error", ""))
                raise Violation("C03.writer_rejected", "%s:%s:%s" % (tag, outcome.split(":", 1)[-1], msg[:40]),
                                "compose raised %s (%s)" % (outcome, msg))
            form = named(n)
            if tag in ("first", "second", "third"):
                bad = [c for lib in n.libraries for d in lib.definitions for c in d.cables
                       if (c.is_array or len(c.wires) > 1) and str(c.get("EDIF.identifier", "")).startswith("&_")]
                if bad:
                    # open finding (also listed for C17): such a bus is not put together again by the reader
                    sig = "C03.bus_not_reassembled@amp_underscore_identifier"
                    if sig in self.known:
                        w.count("known." + sig)
                        self.skip_rest = True
                    else:
                        self.amp_bus = True
            if tag in ("first", "second", "third") and any(
                    (c.is_array or len(c.wires) > 1) and c.lower_index < 0
                    for lib in n.libraries for d in lib.definitions for c in d.cables):
                self.negative_index = True
            if tag == "third":
                self.form_c = form
            if tag == "first":
                self.form_a = form
                if any(len(w_.pins) >= 2 for lib in n.libraries for d in lib.definitions for c in d.cables
                       for w_ in c.wires):
                    w.count("probe.net_with_two_endpoints")
            self.check_sexpr(w, n, w.fs.files[norm(ev["path"])], tag)
        elif op == "parse" and tag in ("reread", "reread2", "reread3", "source"):
            if self.skip_rest and tag != "source":
                return
            if outcome != "ok" and tag != "source" and self.negative_index:
                sig = "C03.reader_rejected@negative_base_index"
                if sig in self.known:
                    w.count("known." + sig)
                    self.skip_rest = True
                    return
                raise Violation("C03.reader_rejected", "negative_base_index",
                                "a bus with a negative base index is written as net identifiers containing '-': %s" % outcome)
            if outcome != "ok":
                raise Violation("C03.reader_rejected", "%s:%s" % (tag, outcome.split(":", 1)[-1]),
                                "the reader raised %s on a file written by the EDIF writer" % outcome
                                if tag != "source" else "bundled example rejected")
            n = w.h("e%d.0" % ev["i"])
            if tag == "source":
                return
            objs, _ = scan([n])
            check_links(objs, tag, w.name_of, P="C03.wellformed")
            check_mirror(objs, tag, w.name_of, P="C03.wellformed")
            form = named(n)
            if self.skip_rest:
                return
            if tag == "reread3":
                d = dict_diff(self.form_c, form)
                if d:
                    raise Violation("C03.diff_after_edit." + classify(d), "third_write", d)
                w.count("probe.third_write_compared")
            elif tag == "reread":
                d = dict_diff(self.form_a, form)
                if d and self.amp_bus and "/cables" in d:
                    raise Violation("C03.bus_not_reassembled", "amp_underscore_identifier", d)
                if d:
                    raise Violation("C03.diff." + classify(d), "roundtrip", d)
                self.form_b = form
                w.count("probe.roundtrips_compared")
            else:
                d = dict_diff(strip_ids(self.form_b), strip_ids(form))
                if d:
                    raise Violation("C03.idempotent." + classify(d), "second_roundtrip", d)

    def check_sexpr(self, w, n, text, tag):
        try:
            s = sexpr.summary(text)
        except Exception as x:
            raise Violation("C03.sexpr.unreadable", tag, "independent reader cannot read the file: %r" % (x,))
        libs = [(l.get("EDIF.identifier"), l) for l in n.libraries]
        if [x[0][0] for x in s["libraries"]] != [x[0] for x in libs]:
            raise Violation("C03.sexpr.libraries", tag, "library identifiers in the file differ from the netlist")
        for (lid, cells), (_, lib) in zip(s["libraries"], libs):
            if [c[0][0] for c in cells] != [d.get("EDIF.identifier") for d in lib.definitions]:
                raise Violation("C03.sexpr.cells", tag, "cells of %s differ" % lid[0])
            for (cid, ports, insts, nets), d in zip(cells, lib.definitions):
                if cid[1] != d.name:
                    raise Violation("C03.sexpr.cell_name", tag, "cell %s original name %r vs %r" % (cid[0], cid[1], d.name))
                want_ports = [(p.get("EDIF.identifier"), len(p.pins)) for p in d.ports]
                if [(p[0][0], p[1]) for p in ports] != want_ports:
                    raise Violation("C03.sexpr.ports", tag, "ports of cell %s differ" % cid[0])
                if [i[0][0] for i in insts] != [i.get("EDIF.identifier") for i in d.children]:
                    raise Violation("C03.sexpr.instances", tag, "instances of cell %s differ" % cid[0])
                for (iname, ref), inst in zip(insts, d.children):
                    r = inst.reference
                    if ref is None or ref[0].lower() != r.get("EDIF.identifier").lower() or (
                            ref[1] is not None and ref[1].lower() != r.library.get("EDIF.identifier").lower()):
                        raise Violation("C03.sexpr.cellref", tag, "instance %s references %r" % (iname[0], ref))
                want_nets = []
                for c in d.cables:
                    for wr in c.wires:
                        eps = []
                        for p in wr.pins:
                            if kind_of(p) == "ipin":
                                port = p.port
                                eps.append((port.get("EDIF.identifier"),
                                            list(port.pins).index(p) if port.is_array else None, None))
                            else:
                                port = p.inner_pin.port
                                eps.append((port.get("EDIF.identifier"),
                                            list(port.pins).index(p.inner_pin) if port.is_array else None,
                                            p.instance.get("EDIF.identifier")))
                        want_nets.append(eps)
                if [x[1] for x in nets] != want_nets:
                    raise Violation("C03.sexpr.nets", tag, "portRefs of the nets of cell %s differ" % cid[0])
        top = n.top_instance
        if s["design"] is None or s["design"][1].lower() != top.reference.get("EDIF.identifier").lower():
            raise Violation("C03.sexpr.design", tag, "design construct does not name the top cell")


def strip_ids(form):
    return form


def classify(d):
    for k in ("ports", "cables", "instances", "top", "name", "libs"):
        if "/" + k in d:
            return k
    return "other"


PROP = C03
