"""C16 - writing a netlist does not change it and is repeatable."""
from simkit.engine import Prop
from simkit.gen_hier import hier_config, Builder, ScriptGen
from simkit.model import Snapshot, FIELDS
from simkit import corpus
from simkit.simfs import norm
from simkit.violation import Violation
from simkit.world import kind_of

REAL = ["spydrnet.composers (EDIF, Verilog, EBLIF writers)", "spydrnet.parsers (to obtain composable netlists)",
        "spydrnet.ir.*", "namespace manager plugin"]
STUB = ["file system (SimFS: open/write/flush/close tracking, ENOSPC injection)", "wall clock (SimClock with "
        "jumps between two writes)", "identity hash of IR objects", "GC schedule"]
EXT = {"edf": "edf", "v": "v", "eblif": "eblif"}


def strip_timestamp(text):
    return "\n".join(l for l in text.split("\n") if "timeStamp" not in l)


class C16Gen:
    def __init__(self, prop, w, rng, cfg):
        self.w, self.r, self.cfg = w, rng, cfg
        ev = []
        if cfg["source"] == "hier":
            b = Builder(rng, cfg)
            ev = b.build()
            self.net = b.netlist
            k = len(ev)
        elif cfg["source"] == "textgen":
            from simkit import design_shrink, textgen_edif, textgen_verilog, textgen_eblif
            mod = {"edf": textgen_edif, "v": textgen_verilog, "eblif": textgen_eblif}[cfg["fmt"]]
            d = mod.gen_design(rng, cfg["gen"])
            rs = rng.getrandbits(32)
            rcfg = {"ws": "plain", "comment_rate": 0.0}
            ev.append({"op": "fs_put", "path": "sim://in." + cfg["fmt"], "text": design_shrink.render(cfg["fmt"], d, rs, rcfg),
                       "design": d, "fmt": cfg["fmt"], "render": rcfg, "render_seed": rs})
            ev.append({"op": "fs_config", "chunk_law": cfg["chunk_law"], "seed": cfg["hash_seed_copy"]})
            ev.append({"op": "parse", "path": "sim://in." + cfg["fmt"]})
            self.net = "e2.0"
            k = 3
        else:
            ev.append({"op": "fs_put_example", "name": cfg["example"], "path": "sim://in." + cfg["fmt"]})
            ev.append({"op": "fs_config", "chunk_law": cfg["chunk_law"], "seed": cfg["hash_seed_copy"]})
            ev.append({"op": "parse", "path": "sim://in." + cfg["fmt"]})
            self.net = "e2.0"
            k = 3
        fmt = cfg.get("out_fmt", cfg["fmt"])
        opts = cfg.get("opts") or {}
        via = "method" if cfg.get("via_method") else None
        for kind in cfg.get("renames", ()):
            # the netlist is edited between reading and writing: whatever a reader recorded about an element's
            # spelling in the file (a .cname, an identifier) no longer matches its name
            ev.append({"op": "rename_nth", "on": self.net, "kind": kind, "k": rng.randint(0, 10 ** 6),
                       "v": "renamed_%d" % rng.randint(0, 10 ** 6)})
        if cfg.get("unnamed_netlist") and fmt != "edf":
            ev.append({"op": "del_name", "on": self.net})   # only the EDIF writer needs (and defaults) a netlist name
        if cfg.get("stale_output"):
            # the output path already holds an older, longer file: what is written now must replace it entirely
            ev.append({"op": "fs_put", "path": "sim://out1." + fmt, "text": "(stale output of an earlier run)\n" * 400})
        if cfg.get("write_error_at"):
            ev.append({"op": "fs_config", "write_error_at": cfg["write_error_at"]})
        ev.append({"op": "compose", "on": self.net, "path": "sim://out1." + fmt, "opts": opts, "tag": "first", "via": via})
        if cfg.get("write_error_at"):
            ev.append({"op": "fs_config", "write_error_at": 0})
        for q in cfg["between"]:
            ev.append(dict(q, on=self.net) if q["op"] == "query" else dict(q))
        ev.append({"op": "compose", "on": self.net, "path": "sim://out2." + fmt, "opts": opts, "tag": "second", "via": via})
        self.script = ScriptGen(ev)

    def next(self):
        return self.script.next()


class C16(Prop):
    id = "C16"
    engine = "disk"
    fit = "A"
    rule = ("one evaluation = one composable netlist (a generated hierarchical design for EDIF, or a bundled "
            "example parsed through the simulated disk under a seeded read-chunk law for EDIF/Verilog/EBLIF) "
            "composed to the simulated file system with seeded options, then 0-10 read-only queries, GC and "
            "clock jumps, then composed again; the identity-level snapshot of the netlist before and after each "
            "compose, the two texts (modulo the timeStamp line), the open-handle table and the completeness of "
            "the stored file are compared; some runs inject ENOSPC into the k-th write; non-trivial = the first "
            "compose wrote a non-empty file; distinct = distinct (event-kind multiset, final fingerprint) pairs")
    relevant_ops = {"compose"}
    components_real = REAL
    components_stub = STUB
    assumptions = ["permitted side effects of the EDIF writer: a dependency-respecting permutation of libraries "
                   "and of definitions inside a library, added EDIF.identifier / EDIF.rename entries",
                   "a netlist the writer refuses on both attempts in the same way is not composable and is skipped",
                   "SimFS file objects flush on close and on __del__ like CPython's"]
    runs = {"quick": 5000, "thorough": 120000}

    def configure(self, rng, tier):
        r = rng
        fmt = r.choice(["edf", "edf", "v", "eblif"])
        cfg = {"fmt": fmt, "steps": 10 ** 6}
        big = 12000 if tier == "quick" else 70000
        if fmt == "edf" and r.random() < 0.65:
            cfg.update(hier_config(r))
            cfg["source"] = "hier"
            cfg["acyclic_libs"] = True
            cfg["shuffle_order"] = r.random() < 0.6
            cfg["ident_rate"] = r.choice([0.0, 0.3])
            cfg["name_style"] = r.choice(["unique", "scoped", "pool"])
            cfg["name_pool"] = ["a", "A", "ab", "a_b", "n1", "x y", "a[0]", "1a", "a-b"]
            cfg["edif_props"] = r.random() < 0.5
            cfg["odd_prop_ident"] = r.choice([0.0, 0.3])   # property identifiers that are no EDIF identifiers (API-built)
            cfg["mixed_meta"] = r.random() < 0.4
        elif r.random() < 0.3:
            # a text from the independent writers, read by the library's own reader: netlists with the rarer things a
            # reader builds (primitives that are only instantiated and have no declared directions, aliased ports ...)
            cfg["source"] = "textgen"
            cfg["gen"] = {"depth": r.choice([1, 2, 3]), "max_mods": r.choice([1, 2]), "max_ports": r.choice([2, 4]),
                          "max_wires": r.choice([1, 3]), "max_insts": r.choice([1, 3]), "max_prims": r.choice([1, 3]),
                          "order": "bottom_up", "positional_rate": 0.0, "max_blackboxes": 3, "max_stmts": 6,
                          "n_libs": 2, "max_cells": 3, "max_nets": 4, "hier_rate": 0.7}
        else:
            cfg["source"] = "example"
            names = corpus.names(fmt, big)
            cfg["example"] = r.choice(names)
        cfg["chunk_law"] = r.choice(["whole", "32768", "1..64", "1..7"])
        cfg["renames"] = r.choice([[], [], ["instance"], ["instance", "cable"], ["instance", "instance", "port"]])
        # mostly the netlist's own format, sometimes another writer (a parsed EDIF written as Verilog / EBLIF ...)
        cfg["out_fmt"] = fmt if r.random() < 0.7 else r.choice(["edf", "v", "eblif"])
        fmt = cfg["out_fmt"]
        opts = {}
        if fmt == "v":
            if r.random() < 0.5:
                opts["write_blackbox"] = r.choice([True, False])
            if r.random() < 0.3:
                opts["defparam"] = True
            if r.random() < 0.25:
                opts["definition_list"] = {"pick": r.randint(0, 10 ** 6), "k": r.choice([1, 2, 5])}
        if fmt == "eblif":
            if r.random() < 0.5:
                opts["write_blackbox"] = r.choice([True, False])
            if r.random() < 0.5:
                opts["write_eblif_cname"] = r.choice([True, False])
        cfg["opts"] = opts
        cfg["via_method"] = r.random() < 0.3
        cfg["stale_output"] = r.random() < 0.3
        cfg["unnamed_netlist"] = r.random() < 0.3
        between = []
        for _ in range(r.choice([0, 0, 2, 5, 10])):
            x = r.random()
            if x < 0.6:
                between.append({"op": "query", "fn": r.choice(["get_instances", "get_cables", "get_ports",
                                                                "get_definitions", "get_libraries", "get_pins",
                                                                "get_wires", "get_hinstances", "get_hwires",
                                                                "get_hpins"]),
                                "recursive": r.random() < 0.5})
            elif x < 0.8:
                between.append({"op": "gc"})
            else:
                between.append({"op": "clock_jump", "d": r.choice([1, 3600, -3600, 86400 * 400, -7])})
        cfg["between"] = between
        cfg["write_error_at"] = r.randint(1, 60) if r.random() < 0.15 else 0
        return cfg

    def make_gen(self, w, rng, cfg):
        cfg["hash_seed_copy"] = cfg.get("hash_seed", 0) % (2 ** 31)
        return C16Gen(self, w, rng, cfg)

    def start(self, w, cfg):
        self.first = None
        self.cfg = cfg

    # ---------------------------------------------------------------------------------
    def before(self, w, ev):
        if ev["op"] != "compose":
            return None
        n = w.h(ev["on"])
        if n is None:
            return None
        return {"snap": Snapshot([n] + w.roots()), "n": n, "opens": w.fs.opens, "closes": w.fs.closes}

    def after(self, w, ev, outcome, pre):
        if ev["op"] == "parse" and outcome != "ok":
            raise Violation("C16.example_rejected", outcome.split(":", 1)[-1], "a bundled example was not accepted")
        if ev["op"] != "compose" or pre is None:
            return
        fmt = self.cfg.get("out_fmt", self.cfg["fmt"])
        disc = "%s/%s" % (fmt, ev.get("tag"))
        self.compare_snap(w, pre["snap"], Snapshot(pre["snap"].objs), fmt, disc)
        name = norm(ev["path"])
        faulted = bool(self.cfg.get("write_error_at")) and ev.get("tag") == "first"
        if outcome != "ok":
            if faulted and outcome == "refused:OSError":
                w.count("probe.enospc_during_compose")
                self.first = ("enospc", outcome)
                return
            if self.first is None or self.first[0] == "enospc":
                self.first = ("failed", outcome)
                w.count("probe.not_composable")
                return
            if self.first[0] == "failed":
                if self.first[1] != outcome:
                    raise Violation("C16.not_repeatable", disc, "first compose %s, second %s" % (self.first[1], outcome))
                return
            raise Violation("C16.not_repeatable", disc, "the second compose raised %s after a successful first" % outcome)
        # the call returned: the file must be complete and closed
        if id_open(w, name):
            raise Violation("C16.handle_open", disc, "an open handle to %s is still alive after compose returned" % name)
        if not w.fs.complete(name) or not w.fs.files.get(name):
            raise Violation("C16.file_incomplete", disc, "stored text differs from what was written (%d of %d chars)" % (
                len(w.fs.files.get(name, "")), sum(len(x) for x in w.fs.written_log.get(name, []))))
        text = w.fs.files[name]
        w.count("probe.files_written")
        if self.first is None or self.first[0] in ("failed", "enospc"):
            if self.first is not None and self.first[0] == "failed":
                raise Violation("C16.not_repeatable", disc, "first compose raised %s, second succeeded" % self.first[1])
            self.first = ("ok", text)
            return
        if strip_timestamp(self.first[1]) != strip_timestamp(text):
            a, b = strip_timestamp(self.first[1]).split("\n"), strip_timestamp(text).split("\n")
            k = next((i for i, (x, y) in enumerate(zip(a, b)) if x != y), min(len(a), len(b)))
            raise Violation("C16.not_repeatable", disc, "texts differ at line %d: %r vs %r" % (
                k, a[k][:60] if k < len(a) else None, b[k][:60] if k < len(b) else None))
        w.count("probe.repeat_compared")

    def compare_snap(self, w, a, b, fmt, disc):
        for o in a.objs:
            ra, rb = a.rec[id(o)], b.rec.get(id(o))
            if ra == rb:
                continue
            k = kind_of(o)
            for name, x, y in zip(FIELDS[k], ra, rb):
                if x == y:
                    continue
                if fmt == "edf":
                    if name in ("libraries", "definitions") and sorted(x) == sorted(y):
                        if not dependency_order_ok(o, name):
                            raise Violation("C16.netlist_changed.%s.order" % k, disc,
                                            "%s of %s reordered into a non-dependency order" % (name, w.name_of(o)))
                        continue
                    if name == "data":
                        dx, dy = dict(x), dict(y)
                        extra = set(dy) - set(dx)
                        if all(dy[kk] == dx[kk] for kk in dx if kk in dy) and set(dx) <= set(dy) and \
                                extra <= {"EDIF.identifier", "EDIF.rename"}:
                            continue
                raise Violation("C16.netlist_changed.%s.%s" % (k, name), disc,
                                "compose changed %s of %s" % (name, w.name_of(o)))


def dependency_order_ok(o, name):
    if name == "definitions":
        pos = dict((id(d), i) for i, d in enumerate(o.definitions))
        for d in o.definitions:
            for c in d.children:
                r = c.reference
                if r is not None and r.library is o and r is not d and pos[id(r)] > pos[id(d)]:
                    return False
        return True
    pos = dict((id(l), i) for i, l in enumerate(o.libraries))
    for l in o.libraries:
        for d in l.definitions:
            for c in d.children:
                r = c.reference
                if r is not None and r.library is not None and r.library is not l and id(r.library) in pos \
                        and pos[id(r.library)] > pos[id(l)]:
                    return False
    return True


def id_open(w, name):
    """Is a handle to the path still open (tracked by SimFS itself)?"""
    return name in w.fs.open_handles.values()


PROP = C16
