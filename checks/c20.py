"""C20 - the netlist comparer accepts equal netlists and rejects structural differences."""
from simkit.engine import Prop
from simkit.gen_hier import hier_config, Builder, ScriptGen
from simkit import corpus, oplang, textgen_verilog, design_shrink
from simkit.oplang import need
from simkit.oracles.canon import named, dict_diff
from simkit.violation import Violation
from simkit.world import kind_of

import spydrnet as sdn

REAL = ["spydrnet.compare.compare_netlists.Comparer", "spydrnet.clone / EDIF writer and reader (to make the copy)",
        "exact-name lookup (namespace manager) used by the comparer"]
STUB = ["file system (SimFS) for write-then-read copies", "read chunking", "identity hash of IR objects", "one "
        "injected structural fault on the replica (F13)"]


@oplang.op("prop_edit_inplace")
def _(w, e):
    need(w, e["on"])["EDIF.properties"][e["k"]]["value"] = e["v"]


@oplang.op("compare")
def _(w, e):
    from spydrnet.compare.compare_netlists import Comparer
    a, b = need(w, e["a"]), need(w, e["b"])
    if e.get("swap"):
        a, b = b, a      # (which of the two is looked into by name is the comparer's second argument)
    Comparer(a, b).compare()


MUTATIONS = ["direction", "port_width", "port_arrayness", "cable_width", "move_other_instance", "move_other_port",
             "move_other_bit", "move_top_port_bit", "repoint", "property_value", "property_added", "property_dropped",
             "drop_instance", "add_instance", "drop_cable", "add_cable", "drop_port", "add_port", "drop_definition",
             "add_definition", "add_library", "swap_pin_order", "move_other_wire", "repoint_twin"]


def _case_twin(a, b):
    """Names that differ only in letter case (sorted first among the targets of a move)."""
    return a is not b and a.name is not None and b.name is not None and a.name != b.name and a.name.lower() == b.name.lower()


def _is_assign(i):
    return isinstance(i.name, str) and i.name.startswith("SDN_Assignment_")


class Mutator:
    """One effective structural edit of the replica, expressed as ordinary events."""

    def __init__(self, w, rng, b_handle):
        self.w, self.r, self.bh = w, rng, b_handle

    def hd(self, o):
        return self.w.handle_of(o)

    def defs(self):
        n = self.w.h(self.bh)
        return [d for lib in n.libraries for d in lib.definitions]

    def pick(self, kinds=None):
        r = self.r
        order = list(kinds or MUTATIONS)
        r.shuffle(order)
        if r.random() < 0.3:
            order.insert(0, "repoint_twin")    # rarely applicable: tried first in some runs
        for k in order:
            evs = getattr(self, "m_" + k)()
            if evs:
                return k, evs
        return None, None

    # -- ports ----------------------------------------------------------------------------
    def _ports(self):
        return [(d, p) for d in self.defs() for p in d.ports if self.hd(p)]

    def m_direction(self):
        c = self._ports()
        if not c:
            return None
        d, p = self.r.choice(c)
        names = {"in": sdn.IN, "out": sdn.OUT, "inout": sdn.INOUT, "undef": sdn.UNDEFINED}
        new = self.r.choice([x for x in ("in", "out", "inout", "undef") if names[x] != p.direction])
        return [{"op": "set_direction", "on": self.hd(p), "v": new}]

    def m_port_width(self):
        c = [(d, p) for d, p in self._ports() if len(d.references) == 0 or True]
        if not c:
            return None
        d, p = self.r.choice(c)
        # narrower: an unconnected bit goes (by the single or by the bulk call); wider: a bit is added
        def free(d2, ip):
            return ip.wire is None and self.hd(ip) is not None and all(
                i.pins[ip].wire is None for i in d2.references if ip in i.pins)
        narrow = [(d2, p2, ip) for d2, p2 in c if len(p2.pins) >= 3 for ip in p2.pins if free(d2, ip)]
        if narrow and self.r.random() < 0.5:
            d2, p2, ip = self.r.choice(narrow)
            if self.r.random() < 0.6:
                return [{"op": "remove_pins_from", "on": self.hd(p2), "xs": [self.hd(ip)],
                         "as_set": self.r.choice([False, True])}]
            return [{"op": "remove_pin", "on": self.hd(p2), "x": self.hd(ip)}]
        return [{"op": "create_pin", "on": self.hd(p)}]

    def m_port_arrayness(self):
        c = [(d, p) for d, p in self._ports() if len(p.pins) == 1]
        if not c:
            return None
        d, p = self.r.choice(c)
        return [{"op": "set_array", "on": self.hd(p), "v": not p.is_array}]

    # -- cables -----------------------------------------------------------------------------
    def _cables(self):
        return [(d, c) for d in self.defs() for c in d.cables if self.hd(c)]

    def m_cable_width(self):
        c = self._cables()
        if not c:
            return None
        d, cab = self.r.choice(c)
        return [{"op": "create_wire", "on": self.hd(cab)}]

    def _wire_pins(self, pred):
        out = []
        for d, cab in self._cables():
            for wr in cab.wires:
                for p in wr.pins:
                    if pred(p) and self.hd(wr):
                        out.append((d, wr, p))
        return out

    def _ref(self, p):
        if kind_of(p) == "ipin":
            h = self.hd(p)
            return h and {"k": "in", "h": h}
        ih, ph = self.hd(p.instance), self.hd(p.inner_pin)
        return ih and ph and {"k": "stored", "i": ih, "p": ph}

    def _replace(self, d, wr, old, new):
        """On wire wr, put pin ``new`` exactly where ``old`` was."""
        pos = [i for i, x in enumerate(wr.pins) if x is old][0]
        a, b = self._ref(old), self._ref(new)
        if not a or not b:
            return None
        return [{"op": "disconnect_pin", "on": self.hd(wr), "pin": a},
                {"op": "connect_pin", "on": self.hd(wr), "pin": b, "position": pos}]

    def m_move_other_instance(self):
        for d, wr, p in self.r.sample(self._wire_pins(lambda x: kind_of(x) == "opin"), k=min(8, len(
                self._wire_pins(lambda x: kind_of(x) == "opin")))):
            if _is_assign(p.instance):
                continue    # two assign cells of one width are interchangeable to the comparer, by its documentation
            for other in sorted(d.children, key=lambda o: not _case_twin(o, p.instance)):
                if other is p.instance or other.reference is not p.instance.reference:
                    continue
                q = other.pins.get(p.inner_pin)
                if q is not None and q.wire is None:
                    return self._replace(d, wr, p, q)
        return None

    def m_move_other_port(self):
        c = self._wire_pins(lambda x: kind_of(x) == "opin")
        self.r.shuffle(c)
        for d, wr, p in c[:8]:
            for port in sorted(p.instance.reference.ports, key=lambda o: not _case_twin(o, p.inner_pin.port)):
                if port is p.inner_pin.port:
                    continue
                for ip in port.pins:
                    q = p.instance.pins.get(ip)
                    if q is not None and q.wire is None:
                        return self._replace(d, wr, p, q)
        return None

    def m_move_other_bit(self):
        c = self._wire_pins(lambda x: kind_of(x) == "opin")
        self.r.shuffle(c)
        for d, wr, p in c[:8]:
            for ip in p.inner_pin.port.pins:
                if ip is p.inner_pin:
                    continue
                q = p.instance.pins.get(ip)
                if q is not None and q.wire is None:
                    return self._replace(d, wr, p, q)
        return None

    def m_move_other_wire(self):
        """The same pin, moved to another bit of the same cable (appended there)."""
        c = self._wire_pins(lambda x: True)
        self.r.shuffle(c)
        for d, wr, p in c[:12]:
            others = [x for x in wr.cable.wires if x is not wr and self.hd(x)]
            if not others:
                continue
            # prefer the case a pin-sequence comparison cannot see: the last pin of its wire onto a neighbouring bit
            others.sort(key=lambda x: (len(x.pins) > 0, self.r.random()))
            to = others[0] if self.r.random() < 0.6 else self.r.choice(others)
            ref = self._ref(p)
            if not ref:
                continue
            return [{"op": "disconnect_pin", "on": self.hd(wr), "pin": ref},
                    {"op": "connect_pin", "on": self.hd(to), "pin": ref}]
        return None

    def m_move_top_port_bit(self):
        c = self._wire_pins(lambda x: kind_of(x) == "ipin")
        self.r.shuffle(c)
        for d, wr, p in c[:8]:
            for port in d.ports:
                for ip in port.pins:
                    if ip is not p and ip.wire is None:
                        return self._replace(d, wr, p, ip)
        return None

    def m_swap_pin_order(self):
        """Exchange two pins of one port (same width): every connection to either bit now touches the other bit."""
        c = [(d, p) for d, p in self._ports() if len(p.pins) > 1 and all(self.hd(x) for x in p.pins)]
        self.r.shuffle(c)
        for d, p in c[:8]:
            pins = list(p.pins)

            def used(ip):
                return ip.wire is not None or any(i.pins[ip].wire is not None for i in d.references if ip in i.pins)
            for a in range(len(pins)):
                for b in range(a + 1, len(pins)):
                    if used(pins[a]) != used(pins[b]) or (used(pins[a]) and self.r.random() < 0.5):
                        pins[a], pins[b] = pins[b], pins[a]
                        return [{"op": "set_pins", "on": self.hd(p), "xs": [self.hd(x) for x in pins]}]
        return None

    # -- instances --------------------------------------------------------------------------
    def _insts(self):
        # (assign cells are left alone: the comparer is documented to match them by width only)
        return [(d, i) for d in self.defs() for i in d.children if self.hd(i) and i.reference is not None
                and not _is_assign(i)]

    def m_repoint(self):
        c = self._insts()
        self.r.shuffle(c)
        for d, i in c[:10]:
            sh = tuple(len(p.pins) for p in i.reference.ports)
            for t in sorted(self.defs(), key=lambda o: not _case_twin(o, i.reference)):
                if t is not i.reference and tuple(len(p.pins) for p in t.ports) == sh and t.name != i.reference.name \
                        and t is not d:
                    return [{"op": "set_reference", "on": self.hd(i), "x": self.hd(t)}]
        return None

    def m_repoint_twin(self):
        """Re-point an instance to the definition of the SAME NAME in another library."""
        c = self._insts()
        self.r.shuffle(c)
        for d, i in c:
            ref = i.reference
            sh = tuple(len(p.pins) for p in ref.ports)
            for t in self.defs():
                if t is not ref and t.name == ref.name and t.library is not ref.library and t is not d \
                        and tuple(len(p.pins) for p in t.ports) == sh and self.hd(t):
                    return [{"op": "set_reference", "on": self.hd(i), "x": self.hd(t)}]
        return None

    def _props(self):
        return [(d, i) for d, i in self._insts() if isinstance(i.get("EDIF.properties"), list) and i["EDIF.properties"]]

    def m_property_value(self):
        c = self._props()
        if not c:
            return None
        d, i = self.r.choice(c)
        import copy
        pl = copy.deepcopy(i["EDIF.properties"])
        k = self.r.randrange(len(pl))
        v = pl[k]["value"]
        nv = (v + "_x") if isinstance(v, str) else ((not v) if isinstance(v, bool) else v + 1)
        if self.r.random() < 0.5:
            # the record is edited where it is (the way user code does:  inst["EDIF.properties"][k]["value"] = ...)
            return [{"op": "prop_edit_inplace", "on": self.hd(i), "k": k, "v": nv}]
        pl[k]["value"] = nv
        return [{"op": "data_set", "on": self.hd(i), "key": "EDIF.properties", "v": pl}]

    def m_property_added(self):
        c = self._insts()
        if not c:
            return None
        d, i = self.r.choice(c)
        import copy
        pl = copy.deepcopy(i.get("EDIF.properties") or [])
        pl.append({"identifier": "EXTRA", "value": "1"})
        return [{"op": "data_set", "on": self.hd(i), "key": "EDIF.properties", "v": pl}]

    def m_property_dropped(self):
        c = self._props()
        if not c:
            return None
        d, i = self.r.choice(c)
        import copy
        pl = copy.deepcopy(i["EDIF.properties"])
        pl.pop()
        if pl:
            return [{"op": "data_set", "on": self.hd(i), "key": "EDIF.properties", "v": pl}]
        return [{"op": "data_del", "on": self.hd(i), "key": "EDIF.properties"}]

    def m_drop_instance(self):
        c = [(d, i) for d, i in self._insts() if all(op.wire is None for op in i.pins.values())]
        if not c:
            return None
        d, i = self.r.choice(c)
        return [{"op": "remove_child", "on": self.hd(d), "x": self.hd(i)}]

    def m_add_instance(self):
        ds = self.defs()
        if len(ds) < 2:
            return None
        d = self.r.choice(ds)
        leafs = [t for t in ds if t is not d and len(t.children) == 0]
        if not leafs:
            return None
        return [{"op": "create_child", "on": self.hd(d), "name": "zz_extra", "ref": self.hd(self.r.choice(leafs))}]

    def m_drop_cable(self):
        c = [(d, cab) for d, cab in self._cables() if all(len(wr.pins) == 0 for wr in cab.wires)]
        if not c:
            return None
        d, cab = self.r.choice(c)
        return [{"op": "remove_cable", "on": self.hd(d), "x": self.hd(cab)}]

    def m_add_cable(self):
        d = self.r.choice(self.defs())
        return [{"op": "create_cable", "on": self.hd(d), "name": "zz_extra", "wires": 1}]

    def m_drop_port(self):
        c = [(d, p) for d, p in self._ports() if all(ip.wire is None for ip in p.pins) and all(
            r.pins[ip].wire is None for r in d.references for ip in p.pins)]
        if not c:
            return None
        d, p = self.r.choice(c)
        return [{"op": "remove_port", "on": self.hd(d), "x": self.hd(p)}]

    def m_add_port(self):
        d = self.r.choice(self.defs())
        return [{"op": "create_port", "on": self.hd(d), "name": "zz_extra", "pins": 1, "direction": "in"}]

    def m_drop_definition(self):
        n = self.w.h(self.bh)
        top = n.top_instance.reference if n.top_instance is not None else None
        c = [d for d in self.defs() if len(d.references) == 0 and d is not top]
        if not c:
            return None
        d = self.r.choice(c)
        return [{"op": "remove_definition", "on": self.hd(d.library), "x": self.hd(d)}]

    def m_add_definition(self):
        n = self.w.h(self.bh)
        lib = self.r.choice(list(n.libraries))
        return [{"op": "create_definition", "on": self.hd(lib), "name": "zz_extra"}]

    def m_add_library(self):
        return [{"op": "create_library", "on": self.bh, "name": "zz_extra"}]


class C20Gen:
    def __init__(self, prop, w, rng, cfg):
        self.p, self.w, self.r, self.cfg = prop, w, rng, cfg
        ev = []
        if cfg["source"] == "hier":
            b = Builder(rng, cfg)
            ev = b.build()
            a = b.netlist
        elif cfg["source"] == "vtext":
            # a design as the Verilog reader builds it from generated text: assign cells (SDN_VERILOG_ASSIGNMENT_<w>_<k>; the
            # comparer's width-only matching applies to the older SDN_Assignment_ prefix), constants, aliased ports, undeclared primitives
            d = textgen_verilog.gen_design(rng, cfg["vgen"])
            rs = rng.getrandbits(32)
            rd = {"ws": "plain", "comment_rate": 0.0}
            ev.append({"op": "fs_put", "path": "sim://in.v", "text": design_shrink.render("v", d, rs, rd),
                       "design": d, "fmt": "v", "render": rd, "render_seed": rs})
            ev.append({"op": "parse", "path": "sim://in.v", "tag": "A"})
            a = "e1.0"
        else:
            ev.append({"op": "fs_put_example", "name": cfg["example"], "path": "sim://in." + cfg["fmt"]})
            ev.append({"op": "parse", "path": "sim://in." + cfg["fmt"], "tag": "A"})
            a = "e1.0"
        ev.append({"op": "fs_config", "chunk_law": cfg["chunk_law"], "seed": 5})
        if cfg.get("no_top") and cfg["copy"] == "clone":
            ev.append({"op": "set_top", "on": a, "x": None})    # a cell library: a netlist without a top instance
        if cfg.get("derived"):
            # the netlist under comparison is itself a copy that was worked on: a clone of the built design that got
            # one more named element (a cable, a port, a cell or a library) before it is cloned again and compared
            ev.append({"op": "clone", "on": a, "tag": "A"})
            a = "e%d.0" % (len(ev) - 1)
            ev.append({"dyn": "derive", "on": a})
        if cfg["copy"] == "clone":
            ev.append({"op": "clone", "on": a, "tag": "B"})
        elif cfg["source"] in ("example", "vtext") and cfg["copy"] == "reparse":
            ev.append({"op": "parse", "path": "sim://in." + cfg["fmt"], "tag": "B"})
        else:
            ev.append({"op": "compose", "on": a, "path": "sim://copy." + cfg["fmt"]})
            ev.append({"op": "parse", "path": "sim://copy." + cfg["fmt"], "tag": "B"})
        self.a = a
        self.b = "e%d.0" % (len(ev) - 1)
        ev.append({"op": "compare", "a": self.a, "b": self.b, "tag": "faithful", "swap": bool(cfg.get("swap"))})
        self.script = ev
        self.k = 0
        self.queue = None

    def derive(self, a):
        """Exactly one event: a named element is added somewhere in the netlist `a` (nothing, if it offers no place)."""
        n = self.w.h(a)
        hd = self.w.handle_of
        c = []
        if n is not None:
            c.append(("create_library", a))
            for lib in n.libraries:
                if hd(lib):
                    c.append(("create_definition", hd(lib)))
                for d in lib.definitions:
                    if hd(d):
                        c += [("create_cable", hd(d)), ("create_cable", hd(d)), ("create_port", hd(d))]
        if not c:
            return {"op": "gc"}
        op, on = self.r.choice(c)
        e = {"op": op, "on": on, "name": "derived_extra_element", "tag": "A"}
        if op == "create_port":
            e["pins"] = 1     # (the comparer's own rule refuses a port without pins on either side)
        return e

    def next(self):
        if self.k < len(self.script):
            e = self.script[self.k]
            self.k += 1
            if "dyn" in e:
                return self.derive(e["on"])
            return dict(e)
        if self.queue is None:
            if self.p.stop or self.w.h(self.b) is None:
                return None
            m = Mutator(self.w, self.r, self.b)
            kind, evs = m.pick(self.cfg.get("mutations"))
            if evs is None:
                return None
            self.p.mutation = kind
            self.queue = [dict(e, tag="mutation") for e in evs] + [
                {"op": "compare", "a": self.a, "b": self.b, "tag": "mutated"}]
        if self.queue:
            return self.queue.pop(0)
        return None


class C20(Prop):
    id = "C20"
    engine = "disk+hier"
    fit = "C"
    rule = ("one evaluation = one named netlist (generated hierarchical design with instance properties, a "
            "bundled example, a generated Verilog text as the Verilog reader builds it, or a clone of a generated "
            "design that got one more named element), a faithful copy made by clone(), by write-then-read through the simulated disk in "
            "its own format, or by parsing the same file twice, one Comparer run (in either argument order) that must return, then exactly "
            "one structural fault applied to the copy (drawn from the documented list and checked to change the "
            "name-level canonical form) and a second Comparer run that must raise; non-trivial = the fault was "
            "applied and effective; distinct = distinct (event-kind multiset, final fingerprint) pairs")
    relevant_ops = {"compare"}
    components_real = REAL
    components_stub = STUB
    assumptions = ["names contain no wildcard characters (the comparer finds counterparts with get_*(name))",
                   "designs avoid the two open EDIF round-trip findings (bus identifiers starting with '&_', "
                   "negative base indices) so that a write-then-read copy is faithful",
                   "any exception raised by compare() counts as 'raises'"]
    runs = {"quick": 5000, "thorough": 120000}

    def configure(self, rng, tier):
        r = rng
        cfg = {"steps": 10 ** 6}
        if r.random() < 0.7:
            cfg.update(hier_config(r))
            cfg["source"] = "hier"
            cfg["upto_rate"] = r.choice([0.0, 0.3])
            cfg["fmt"] = "edf"
            cfg["acyclic_libs"] = True
            cfg["edif_props"] = True
            cfg["orphan_instance"] = False
            cfg["lsb"] = max(0, cfg["lsb"])
            cfg["connect_rate"] = r.choice([0.3, 0.6])
            cfg["copy"] = r.choice(["clone", "roundtrip"])
            cfg["no_top"] = cfg["copy"] == "clone" and r.random() < 0.15
            cfg["derived"] = cfg["copy"] == "clone" and r.random() < 0.3
            cfg["swap"] = r.random() < 0.4
            cfg["twin_defs"] = r.random() < 0.4
            if cfg["twin_defs"]:
                cfg["n_libs"] = max(2, cfg["n_libs"])
            cfg["undef_dir_rate"] = r.choice([0.0, 0.3]) if cfg["copy"] == "clone" else 0.0
            cfg["case_twin_rate"] = r.choice([0.0, 0.3]) if cfg["copy"] == "clone" else 0.0
            cfg["empty_name_rate"] = r.choice([0.0, 0.0, 0.2]) if cfg["copy"] == "clone" else 0.0
        elif r.random() < 0.4:
            cfg["source"] = "vtext"
            cfg["fmt"] = "v"
            cfg["vgen"] = {"depth": r.choice([1, 2, 3]), "max_mods": r.choice([1, 2]), "max_ports": r.choice([2, 4]),
                           "max_wires": 3, "max_insts": r.choice([2, 4]), "max_prims": 2,
                           "order": r.choice(["bottom_up", "top_down", "shuffled"]), "positional_rate": 0.2}
            cfg["copy"] = r.choice(["clone", "clone", "reparse", "roundtrip"])
        else:
            cfg["source"] = "example"
            cfg["fmt"] = r.choice(["edf", "edf", "v", "v", "eblif"])
            cfg["example"] = r.choice(corpus.names(cfg["fmt"], 12000 if tier == "quick" else 70000))
            cfg["copy"] = r.choice(["clone", "reparse", "roundtrip"])
        cfg["chunk_law"] = r.choice(["whole", "1..64"])
        return cfg

    def make_gen(self, w, rng, cfg):
        return C20Gen(self, w, rng, cfg)

    def start(self, w, cfg):
        self.cfg = cfg
        self.stop = False
        self.mutation = None
        self.form_b = None

    def after(self, w, ev, outcome, pre):
        op, tag = ev["op"], ev.get("tag")
        how = self.cfg["copy"] + "/" + self.cfg["fmt"]
        if op != "compare":
            if tag == "mutation" and outcome != "ok":
                self.stop = True  # the fault could not be applied; nothing to claim
            elif tag in ("A", "B") and outcome != "ok":
                self.stop = True
                w.count("probe.copy_not_made")
            elif op == "compose" and outcome != "ok":
                self.stop = True
                w.count("probe.copy_not_made")
            elif tag is None and op not in ("fs_config", "fs_put_example") and outcome != "ok":
                self.stop = True
            return
        if self.stop:
            return
        a, b = w.h(ev["a"]), w.h(ev["b"])
        if a is None or b is None:
            self.stop = True
            return
        if tag == "faithful":
            fa, fb = named(a), named(b)
            if dict_diff(fa, fb) is not None:
                # the copy is not faithful (that is C03/C04/C07's business): the comparer may raise
                w.count("probe.copy_not_faithful")
                self.stop = True
                return
            if outcome != "ok":
                raise Violation("C20.false_alarm", "%s:%s" % (how, outcome.split(":", 1)[-1]),
                                "compare() raised %s (%s) on a faithful copy" % (outcome, getattr(w, "last_error", "")))
            self.form_b = fb
            self.flags_b = _stored_flags(b)
            w.count("probe.faithful_accepted")
        else:
            fb = named(b)
            if dict_diff(self.form_b, fb) is None and _stored_flags(b) == self.flags_b:
                w.count("probe.mutation_not_effective")
                return
            if dict_diff(self.form_b, fb) is None:
                fb = dict(fb, stored_array_flags="changed")     # (the fault is visible in the stored flag only)
            w.count("probe.mutation.%s" % self.mutation)
            if outcome == "ok":
                raise Violation("C20.missed.%s" % self.mutation, how, "compare() returned although the copy differs: %s" % (
                    dict_diff(self.form_b, fb)))


def _stored_flags(n):
    """The scalar/array flag of every port as STORED (a one-pin port is an array or a scalar by this flag alone)."""
    return tuple((lib.name, d.name, p.name, getattr(p, "_is_scalar", None))
                 for lib in n.libraries for d in lib.definitions for p in d.ports)


PROP = C20
