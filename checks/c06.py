"""C06 - the Verilog reader builds exactly the design the source describes."""
from simkit.engine import Prop
from simkit import design_shrink, history
from simkit.gen_hier import ScriptGen
from simkit import corpus, textgen_verilog
from simkit.oracles.links import check_links
from simkit.oracles.mirror import check_mirror, check_self_contained, check_wire_endpoints
from simkit.model import scan
from simkit.violation import Violation
from simkit.world import World, kind_of

REAL = ["spydrnet.parsers.verilog (tokenizer, token factory, parser)", "spydrnet.ir.*", "namespace manager plugin"]
STUB = ["file system (SimFS) and read chunking (short reads)", "identity hash of IR objects (black-box set, port "
        "sets and top re-election iterate sets)", "naming policy at entry"]


def extract(netlist):
    """Bit-level reading of a parsed Verilog netlist, in the vocabulary of textgen_verilog.expected."""
    mods = {}
    prims = {}
    for lib in netlist.libraries:
        for d in lib.definitions:
            if lib.name == "SDN_VERILOG_ASSIGNMENT":
                continue
            if lib.name == "hdi_primitives":
                prims[d.name] = {"declared": not d.get("VERILOG.primitive", False),
                                 "ports": [(p.name, p.direction.name, len(p.pins)) for p in d.ports],
                                 "widths": dict((p.name, len(p.pins)) for p in d.ports),
                                 "attrs": dict(d.get("VERILOG.InlineConstraints", {}) or {})}
                continue
            conn = {}
            for c in d.cables:
                for i, wr in enumerate(c.wires):
                    eps = set()
                    for pin in wr.pins:
                        if kind_of(pin) == "ipin":
                            eps.add(("port", pin.port.name, pin.port.lower_index + list(pin.port.pins).index(pin)))
                        else:
                            ip = pin.inner_pin
                            eps.add(("inst", pin.instance.name, ip.port.name, list(ip.port.pins).index(ip)))
                    if eps:
                        conn[(c.name, c.lower_index + i)] = frozenset(eps)
            mods[d.name] = {
                "ports": [(p.name, p.direction.name, len(p.pins), p.lower_index) for p in d.ports],
                "cables": dict((c.name, (len(c.wires), c.lower_index)) for c in d.cables),
                "conn": conn,
                "insts": dict((i.name, (i.reference.name if i.reference is not None else None,
                                        dict(i.get("VERILOG.Parameters", {}) or {}),
                                        dict(i.get("VERILOG.InlineConstraints", {}) or {}))) for i in d.children),
                "params": dict(d.get("VERILOG.Parameters", {}) or {}),
                "attrs": dict(d.get("VERILOG.InlineConstraints", {}) or {}),
            }
    top = netlist.top_instance
    return {"modules": mods, "prims": prims,
            "top": top.reference.name if top is not None and top.reference is not None else None}


class C06(Prop):
    id = "C06"
    engine = "textgen"
    fit = "B"
    rule = ("one evaluation = one abstract design (modules in any order, header-only or ANSI ports, wire ranges "
            "[msb:lsb], named and positional port maps, identifier / bit-select / part-select / concatenation / "
            "1'b0 / 1'b1 / empty connections of width up to the port width, implied nets, escaped identifiers, "
            "comments, `celldefine or never-declared primitives, parameters, attributes, assigns) rendered to "
            "Verilog by an independent writer, stored on the simulated disk and parsed under a seeded chunk law; "
            "the bit-level connectivity, ports, cables, instances, primitives and top of the result are compared "
            "with the model; bundled .v examples are checked for well-formedness; non-trivial = the design has at "
            "least one instance connection; distinct = distinct (event-kind multiset, final fingerprint) pairs")
    relevant_ops = {"parse"}
    components_real = REAL
    components_stub = STUB
    assumptions = ["module ports are based at 0 with msb >= lsb; assigns join equally wide operands",
                   "positional port maps are not used with never-declared primitives (their ports have no names)",
                   "an expression is never wider than the port it is connected to"]
    runs = {"quick": 10000, "thorough": 250000}

    def configure(self, rng, tier):
        r = rng
        cfg = {"steps": 10 ** 6}
        cfg["source"] = "gen" if r.random() < 0.88 else "example"
        if cfg["source"] == "example":
            cfg["example"] = r.choice(corpus.names("v", 12000 if tier == "quick" else 70000))
        cfg["chunk_law"] = r.choice(["whole", "32768", "1..64", "1..7"])
        cfg["policy_start"] = r.choice(["DEFAULT", "DEFAULT", "EDIF"])
        cfg["gen"] = {"depth": r.choice([1, 2, 2, 3, 4]), "max_mods": r.choice([1, 2, 3]), "max_ports": r.choice([2, 4]),
                      "max_wires": r.choice([1, 3, 5]), "max_insts": r.choice([1, 3, 5]), "max_prims": r.choice([1, 3]),
                      "order": r.choice(["bottom_up", "top_down", "shuffled", "shuffled"]),
                      "positional_rate": r.choice([0.0, 0.3, 0.6])}
        cfg["render"] = {"ws": r.choice(["plain", "wild"]), "comment_rate": r.choice([0.0, 0.15]),
                         "wire_kw": r.choice(["wire", "wire", "reg"]), "group_decls": r.random() < 0.3, "defparam": r.random() < 0.3, "split_attrs": r.random() < 0.3}
        cfg["prior_rejected"] = r.random() < 0.2   # an earlier, refused read in the same process
        return cfg

    def make_gen(self, w, rng, cfg):
        ev = [{"op": "fs_config", "chunk_law": cfg["chunk_law"], "seed": cfg.get("hash_seed", 0) % (2 ** 31)}]
        if cfg["source"] == "example":
            ev.append({"op": "fs_put_example", "name": cfg["example"], "path": "sim://in.v"})
        else:
            d = textgen_verilog.gen_design(rng, cfg["gen"])
            rs = rng.getrandbits(32)
            text = design_shrink.render("v", d, rs, cfg["render"])
            if cfg.get("prior_rejected"):
                ev.extend(history.prior_rejected(rng, text, "sim://bad.v"))
            ev.append({"op": "fs_put", "path": "sim://in.v", "text": text, "design": d, "fmt": "v",
                       "render": cfg["render"], "render_seed": rs})
        ev.append({"op": "parse", "path": "sim://in.v"})
        return ScriptGen(ev)

    def start(self, w, cfg):
        self.design = None

    def before(self, w, ev):
        if ev.get("prior"):
            return None
        if ev["op"] == "fs_put":
            self.design = ev.get("design")
            if self.design and any(p.get("alias") or p.get("alias_wide") or p.get("alias_bits") for m in self.design["modules"] for p in m["ports"]):
                w.count("probe.design_with_aliased_header_port")
        if ev["op"] == "parse":
            return World.process_state_fingerprint()
        return None

    def after(self, w, ev, outcome, pre):
        if ev["op"] != "parse":
            return
        if ev.get("prior"):
            w.count("fault.prior_read_" + ("refused" if outcome != "ok" else "accepted"))
            return
        disc = "gen" if self.design else "example"
        if outcome != "ok":
            raise Violation("C06.reader_rejected", "%s:%s:%s" % (disc, outcome.split(":", 1)[-1],
                                                               str(getattr(w, "last_error", ""))[:40]),
                            "the reader raised %s (%s) on supported input" % (outcome, getattr(w, "last_error", "")))
        n = w.h("e%d.0" % ev["i"])
        objs, _ = scan([n])
        check_links(objs, disc, w.name_of, P="C06.wellformed")
        check_mirror(objs, disc, w.name_of, P="C06.wellformed")
        check_self_contained(n, objs, disc, w.name_of, "C06.wellformed")
        check_wire_endpoints(n, disc, w.name_of, P="C06.wellformed")
        if World.process_state_fingerprint() != pre:
            raise Violation("C06.process_state", disc, "parse changed process-wide settings")
        if not self.design:
            w.count("probe.example_parsed")
            return
        want = textgen_verilog.expected(_tuplify(self.design))
        got = extract(n)
        if got["top"] != want["top"]:
            raise Violation("C06.top", "gen", "top is %r, the root module is %r" % (got["top"], want["top"]))
        for name, wm in want["modules"].items():
            gm = got["modules"].get(name)
            if gm is None:
                raise Violation("C06.modules", "missing", "module %r is not a definition of library work" % name)
            early = self.used_before_declared(name)
            if (sorted(gm["ports"]) != sorted(wm["ports"])) or (not early and gm["ports"] != wm["ports"]):
                raise Violation("C06.ports", "gen" if not early else "used_before_declared",
                                "module %s ports %r vs %r" % (name, gm["ports"], wm["ports"]))
            if gm["cables"] != wm["cables"]:
                a, b = gm["cables"], wm["cables"]
                diff = [k for k in set(a) | set(b) if a.get(k) != b.get(k)]
                raise Violation("C06.cables", "gen", "module %s cable %r: got %r, expected %r" % (
                    name, diff[0], a.get(diff[0]), b.get(diff[0])))
            if gm["conn"] != wm["conn"]:
                a, b = gm["conn"], wm["conn"]
                k = sorted((k for k in set(a) | set(b) if a.get(k) != b.get(k)), key=repr)[0]
                kind = "positional" if any(i["positional"] for m in self.design["modules"] if m["name"] == name
                                           for i in m["insts"]) else "named"
                raise Violation("C06.conn_bit", kind, "module %s net %r: got %r, expected %r" % (
                    name, k, sorted(a.get(k, ()), key=repr), sorted(b.get(k, ()), key=repr)))
            if gm["insts"] != wm["insts"]:
                a, b = gm["insts"], wm["insts"]
                k = sorted((k for k in set(a) | set(b) if a.get(k) != b.get(k)), key=repr)[0]
                raise Violation("C06.instances", "gen", "module %s instance %r: got %r, expected %r" % (
                    name, k, a.get(k), b.get(k)))
            if gm["params"] != wm["params"]:
                raise Violation("C06.params", "module", "module %s parameters %r vs %r" % (name, gm["params"], wm["params"]))
            if gm["attrs"] != wm["attrs"]:
                raise Violation("C06.attrs", "module", "module %s attributes %r vs %r" % (name, gm["attrs"], wm["attrs"]))
        extra = set(got["modules"]) - set(want["modules"])
        if extra:
            raise Violation("C06.modules", "extra", "unexpected definitions in work: %r" % sorted(extra)[:3])
        for name, wp in want["prims"].items():
            gp = got["prims"].get(name)
            if gp is None:
                raise Violation("C06.primitive", "missing", "primitive %r is not in hdi_primitives" % name)
            if wp["declared"]:
                before = [p for p in self.design["prims"] if p["name"] == name][0]["pos"] == "before"
                if sorted(gp["ports"]) != sorted(wp["ports"]) or (before and gp["ports"] != wp["ports"]):
                    raise Violation("C06.primitive", "declared_ports", "%s: %r vs %r" % (name, gp["ports"], wp["ports"]))
                if gp["attrs"] != wp.get("attrs", {}):
                    raise Violation("C06.attrs", "primitive", "`celldefine module %s attributes %r vs %r" % (
                        name, gp["attrs"], wp.get("attrs", {})))
            else:
                if gp["widths"] != wp["widths"]:
                    raise Violation("C06.primitive", "inferred_widths", "%s: %r vs %r" % (name, gp["widths"], wp["widths"]))
        if any(i["conns"] for m in self.design["modules"] for i in m["insts"]):
            w.count("probe.design_with_connections")
        w.count("probe.designs_compared")


def _used_before_declared(design, name):
    """Is module ``name`` instantiated by a module that appears earlier in the file?"""
    order = [m["name"] for m in design["modules"]]
    pos = order.index(name)
    return any(i["of"] == name for m in design["modules"][:pos] for i in m["insts"])


C06.used_before_declared = lambda self, name: _used_before_declared(self.design, name)


def _tuplify(x):
    """JSON round trips turn tuples into lists; the model code wants tuples for expressions."""
    if isinstance(x, list):
        return tuple(_tuplify(y) for y in x) if x and isinstance(x[0], str) and x[0] in (
            "id", "bit", "part", "cat", "const") else [_tuplify(y) for y in x]
    if isinstance(x, dict):
        return dict((k, _tuplify(v)) for k, v in x.items())
    return x


PROP = C06
