"""C08 - uniquify makes every non-leaf instance unique without changing the design."""
from simkit.engine import Prop
from simkit import design_shrink, textgen_verilog
from simkit.gen_hier import hier_config, Builder, ScriptGen
from simkit.model import scan, Snapshot
from simkit.oracles.elab import Elab, partition_diff
from simkit.oracles.links import check_links
from simkit.oracles.mirror import check_mirror, check_wire_endpoints
from simkit.oracles.naming import lookup_answers
from simkit.violation import Violation
from simkit.world import kind_of

from simkit import oplang as _oplang


@_oplang.op("blackbox_shared")
def _(w, e):
    n = _oplang.need(w, e["on"])
    defs = [d for lib in n.libraries for d in lib.definitions]
    for d in defs:
        d.is_leaf()                      # (what every recursive query and the writers ask)
    top = n.top_instance.reference if n.top_instance is not None else None
    c = [d for d in defs if d is not top and len(d.children) and len(d.references) >= 2]
    if not c:
        raise _oplang.Skip("no shared cell with contents")
    d = c[e["k"] % len(c)]
    for cable in d.cables:
        for wire in cable.wires:
            wire.disconnect_pins_from(list(wire.pins))
    d.remove_children_from(list(d.children))
    d.remove_cables_from(list(d.cables))
    w.count("probe.shared_cell_blackboxed")


REAL = ["spydrnet.uniquify", "spydrnet.ir.* (clone, reference re-pointing)", "callback framework",
        "namespace manager plugin"]
STUB = ["identity hash of IR objects (PRNG chosen)", "GC schedule", "uniquify name counter start value", "process "
        "restart with the design surviving on the simulated disk only (F12)", "file system (SimFS)"]


def reachable_nonleaf_instances(netlist):
    out = []
    top = netlist.top_instance
    seen = set()
    stack = [top]
    while stack:
        i = stack.pop()
        d = i.reference
        if d is None or id(d) in seen:
            continue
        seen.add(id(d))
        for c in d.children:
            out.append(c)
            stack.append(c)
    return out


class C08(Prop):
    id = "C08"
    engine = "hier"
    fit = "C"
    rule = ("one evaluation = one generated hierarchical design (a history of valid API calls with a seeded "
            "sharing pattern, pass-through and wire-only cells, bus ports, unreachable and orphan instances), "
            "then uniquify, then uniquify again; the independent elaboration (instance-name tree, leaf type per "
            "path, endpoint partition) before must equal the one after; non-trivial = the design contains at "
            "least one definition instanced more than once below the top; distinct = distinct (event-kind "
            "multiset, final fingerprint) pairs")
    components_real = REAL
    components_stub = STUB
    assumptions = ["instance names are unique per definition in generated designs, so endpoints can be named "
                   "by instance-name paths",
                   "a leaf is a definition without children and without cables (Definition.is_leaf)"]
    runs = {"quick": 8000, "thorough": 200000}

    def configure(self, rng, tier):
        cfg = hier_config(rng)
        cfg["share"] = rng.choice([0.3, 0.6, 0.9])
        cfg["steps"] = 10 ** 6
        cfg["counter_start"] = rng.choice([0, 0, 0, 1, 7])
        cfg["gc_between"] = rng.random() < 0.3
        cfg["uniq_names"] = rng.choice([0.0, 0.0, 0.5, 0.9])
        cfg["restart"] = rng.random() < 0.3
        cfg["late_pins"] = 0 if cfg["restart"] else rng.choice([0, 0, 0.4])
        cfg["wire_reorder_rate"] = rng.choice([0, 0, 0.5])
        cfg["blackbox_first"] = rng.random() < 0.15
        if not cfg["restart"] and rng.random() < 0.2:
            cfg["source"] = "v"
            cfg["vgen"] = {"depth": rng.choice([2, 3, 4]), "max_mods": rng.choice([1, 2, 3]), "max_ports": rng.choice([2, 4]),
                           "max_wires": 3, "max_insts": rng.choice([3, 5]), "max_prims": 2,
                           "order": rng.choice(["bottom_up", "top_down", "shuffled"]), "positional_rate": 0.2}
        if cfg["restart"]:
            cfg["acyclic_libs"] = True
            cfg["orphan_instance"] = False
            cfg["lsb"] = max(0, cfg["lsb"])
        return cfg

    def make_gen(self, w, rng, cfg):
        if cfg.get("source") == "v":
            # a design as the Verilog reader builds it: pin tables in the order instances mentioned the ports,
            # libraries in use-before-declaration order, assign cells, constants
            d = textgen_verilog.gen_design(rng, cfg["vgen"])
            rs = rng.getrandbits(32)
            ev = [{"op": "fs_put", "path": "sim://in.v", "text": design_shrink.render("v", d, rs, {"ws": "plain", "comment_rate": 0.0}),
                   "design": d, "fmt": "v", "render": {"ws": "plain", "comment_rate": 0.0}, "render_seed": rs},
                  {"op": "parse", "path": "sim://in.v"}]
            return ScriptGen(ev + [{"op": "uniquify", "on": "e1.0"}, {"op": "uniquify", "on": "e1.0"}])
        b = Builder(rng, cfg)
        ev = b.build()
        if cfg.get("blackbox_first"):
            # before uniquify a shared cell is made a black box the bulk way (its nets taken apart, all children and all
            # cables removed in one call each), after a query has asked every cell whether it is a leaf
            ev.append({"op": "blackbox_shared", "on": b.netlist, "k": rng.randint(0, 10 ** 6)})
        tail = [{"op": "uniquify", "on": b.netlist}]
        if cfg.get("gc_between"):
            tail.append({"op": "gc"})
        tail.append({"op": "uniquify", "on": b.netlist})
        if not cfg.get("restart"):
            return ScriptGen(ev + tail)
        # F12: the uniquified design is written out, the process restarts (name counter back to 0, only the
        # disk survives), the file is read back, new sharing is added and uniquify runs in the new process
        tail.append({"op": "compose", "on": b.netlist, "path": "sim://u.edf"})
        tail.append({"op": "restart"})
        tail.append({"op": "parse", "path": "sim://u.edf", "tag": "after_restart"})
        state = {"phase": 0, "net": None}
        n_script = len(ev) + len(tail)

        def more():
            if state["phase"] == 0:
                state["phase"] = 1
                net = w.h("e%d.0" % (n_script - 1))
                if net is None or net.top_instance is None:
                    return None
                state["net"] = w.handle_of(net)
                top = net.top_instance.reference
                cands = [d for lib in net.libraries for d in lib.definitions
                         if d is not top and not d.is_leaf() and len(d.references) >= 1
                         and not self._reaches(d, top)]
                if not cands:
                    return {"op": "uniquify", "on": state["net"]}
                d = rng.choice(cands)
                return {"op": "create_child", "on": w.handle_of(top), "name": "added_after_restart",
                        "ref": w.handle_of(d)}
            if state["phase"] == 1:
                state["phase"] = 2
                return {"op": "uniquify", "on": state["net"]}
            return None
        return ScriptGen(ev + tail, more)

    @staticmethod
    def _reaches(src, dst):
        seen, stack = set(), [src]
        while stack:
            d = stack.pop()
            if d is dst:
                return True
            if d is None or id(d) in seen:
                continue
            seen.add(id(d))
            stack.extend(c.reference for c in d.children)
        return False

    def start(self, w, cfg):
        w.set_counters(uniquify=cfg.get("counter_start", 0))
        self.n_uniq = 0

    def before(self, w, ev):
        if ev["op"] == "restart":
            self.n_uniq = 0
            w.count("probe.restart_between_uniquify_runs")
        if ev["op"] != "uniquify":
            return None
        n = w.h(ev["on"])
        if n is None or n.top_instance is None or n.top_instance.reference is None:
            return None
        el = Elab(n)
        shared = any(len(i.reference.references) > 1 and not i.reference.is_leaf()
                     for i in reachable_nonleaf_instances(n) if i.reference is not None)
        if shared:
            w.count("probe.shared_nonleaf_before_uniquify")
        pre = {"tree": el.name_tree(), "leaf": dict((k, v.name) for k, v in el.leaf_table().items()),
               "part": el.endpoint_partition(), "defs": set(id(d) for lib in n.libraries for d in lib.definitions),
               "netlist": n, "shared": shared}
        self.n_uniq += 1
        if self.n_uniq >= 2:
            pre["snap"] = Snapshot(w.roots())
        return pre

    def after(self, w, ev, outcome, pre):
        if ev["op"] != "uniquify" or pre is None:
            return
        disc = "first" if "snap" not in pre else "second"
        if outcome != "ok":
            raise Violation("C08.raised", disc + ":" + outcome.split(":", 1)[-1], "uniquify raised: %s" % outcome)
        n = pre["netlist"]
        el = Elab(n)
        if el.name_tree() != pre["tree"]:
            raise Violation("C08.elab.tree", disc, "hierarchical instance-name tree changed")
        leaf = dict((k, v.name) for k, v in el.leaf_table().items())
        if leaf != pre["leaf"]:
            raise Violation("C08.elab.leaf_type", disc, "leaf cell type changed at some path")
        part = el.endpoint_partition()
        if part != pre["part"]:
            raise Violation("C08.elab.partition", disc, partition_diff(pre["part"], part) or "partition changed")
        for i in reachable_nonleaf_instances(n):
            d = i.reference
            if d is not None and not d.is_leaf() and len(d.references) != 1:
                raise Violation("C08.not_unique", disc,
                                "%s still shares %s with %d other instances" % (
                                    w.name_of(i), d.name, len(d.references) - 1))
        objs, _ = scan(w.roots() + [n])
        check_links(objs, disc, w.name_of, P="C08.wellformed")
        check_mirror(objs, disc, w.name_of, P="C08.wellformed")
        check_wire_endpoints(n, disc, w.name_of, P="C08.wellformed")
        # new definitions: same library as the original, immediately after it, fresh unique name, findable
        for lib in n.libraries:
            names = {}
            for d in lib.definitions:
                if d.name is not None:
                    if d.name in names:
                        raise Violation("C08.new_def.name", disc, "two definitions named %r in %s" % (d.name, lib.name))
                    names[d.name] = d
                if id(d) not in pre["defs"]:
                    w.count("probe.definitions_created_by_uniquify")
                    if d.name is not None:
                        got = list(w.sdn.get_definitions(lib, d.name))
                        if len(got) != 1 or got[0] is not d:
                            raise Violation("C08.new_def.lookup", disc,
                                            "new definition %r cannot be found by exact name" % d.name)
        if "snap" in pre:
            d = pre["snap"].diff(Snapshot(w.roots()))
            if d is not None:
                o, field, a, b = d
                raise Violation("C08.not_idempotent", kind_of(o) + "." + field,
                                "second uniquify changed %s of %s" % (field, w.name_of(o)))


PROP = C08
