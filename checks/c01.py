"""C01 - IR ownership and pin-wire links stay mutually consistent under any edit history."""
from simkit.engine import Prop
from simkit.gen_iredit import swarm_config
from simkit.model import scan
from simkit.oracles.links import check_links, reorder_subject, check_reorder

REAL = ["spydrnet.ir.* (all mutators)", "callback framework", "namespace manager plugin"]
STUB = ["identity hash of IR objects (PRNG chosen)", "GC schedule (explicit events)"]


class C01(Prop):
    id = "C01"
    engine = "iredit"
    fit = "A"
    rule = ("one evaluation = one seeded history of public IR mutator calls (valid and hostile arguments, "
            "proxy outer pins) with the link-consistency oracle run over the closure of every object after "
            "every event; non-trivial = at least one API call executed; distinct = distinct (multiset of "
            "event kinds, final state fingerprint) pairs")
    components_real = REAL
    components_stub = STUB
    assumptions = ["read accessors of the IR (.libraries, .pins, .wire, ...) report the stored state",
                   "arguments are always of the documented kind (a Port where a port is expected)"]
    runs = {"quick": 9000, "thorough": 300000}

    def configure(self, rng, tier):
        return swarm_config(rng, base={"clone": 0.15})

    def before(self, w, ev):
        return reorder_subject(w, ev)

    def after(self, w, ev, outcome, pre):
        disc = ev["op"]
        objs, _ = scan(w.roots())
        check_links(objs, disc, w.name_of)
        check_reorder(pre, disc, w.name_of)


PROP = C01
