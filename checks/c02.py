"""C02 - instances mirror their definition: reference sets and outer pins track all edits."""
from simkit.engine import Prop
from simkit.gen_iredit import swarm_config
from simkit.model import scan
from simkit.oracles.mirror import check_mirror, repoint_pre, repoint_post
from checks.c01 import REAL, STUB


class C02(Prop):
    id = "C02"
    engine = "iredit"
    fit = "A"
    rule = ("one evaluation = one seeded history biased to definitions that already have instances "
            "(children, top instances, orphans) and to port/pin add/remove/reorder and reference changes; "
            "the mirror oracle runs over the closure after every event, plus the re-point postcondition; "
            "non-trivial = at least one of the mirror-relevant calls executed; distinct = distinct "
            "(event-kind multiset, final fingerprint) pairs")
    relevant_ops = {"create_child", "set_reference", "del_reference", "create_port", "add_port", "remove_port",
                    "remove_ports_from", "create_pin", "create_pins", "add_pin", "remove_pin", "remove_pins_from",
                    "set_top", "set_top_instance", "add_child", "remove_child", "clone"}
    components_real = REAL
    components_stub = STUB
    assumptions = ["read accessors of the IR report the stored state",
                   "arguments are always of the documented kind"]
    runs = {"quick": 6000, "thorough": 200000}

    def configure(self, rng, tier):
        return swarm_config(rng, base={"reference": 5.0, "top": 1.5, "build": 7.0, "attach": 4.0, "remove": 3.5,
                                       "bulk_remove": 2.0, "clone": 0.1, "name": 0.4, "data": 0.2},
                            rel_bias=["port", "port", "ipin", "ipin", "ipin", "instance", "instance", "definition"])

    def before(self, w, ev):
        return repoint_pre(w, ev)

    def after(self, w, ev, outcome, pre):
        disc = ev["op"]
        repoint_post(pre, outcome, disc, w.name_of)
        objs, _ = scan(w.roots())
        check_mirror(objs, disc, w.name_of)


PROP = C02
