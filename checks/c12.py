"""C12 - cross-hierarchy tracing returns exactly the electrically connected net."""
from simkit.engine import Prop
from simkit.gen_hier import hier_config, Builder, ScriptGen
from simkit.oracles.elab import Elab
from simkit.violation import Violation
from simkit.world import kind_of
from simkit import oplang
from simkit.oplang import need
from checks.c11 import chain, ids, STUB

import spydrnet as sdn
from spydrnet.util.hierarchical_reference import HRef

REAL = ["spydrnet.util.get_hwires / get_hpins / get_hcables / get_hports (selection ALL/INSIDE/OUTSIDE)",
        "spydrnet.util.hierarchical_reference", "spydrnet.ir.*"]
SEL = {"ALL": sdn.ALL, "INSIDE": sdn.INSIDE, "OUTSIDE": sdn.OUTSIDE}


@oplang.op("htrace")
def _(w, e):
    seq = [need(w, h) for h in e["path"]] + [need(w, h) for h in e["item"]]
    # a plain element (wire, cable) as the start stands for ALL its occurrences in the design
    start = seq[-1] if e.get("plain") else HRef.from_sequence(seq)
    m = e.get("via") == "method" and not e.get("plain")   # the shortcut spelling  href.get_hx(...)  of  sdn.get_hx(href, ...)
    if e["fn"] == "hwires":
        res = list(start.get_hwires(selection=SEL[e["sel"]]) if m else sdn.get_hwires(start, selection=SEL[e["sel"]]))
    elif e["fn"] == "hcables":
        res = list(start.get_hcables(selection=SEL[e["sel"]]) if m else sdn.get_hcables(start, selection=SEL[e["sel"]]))
    elif e["fn"] == "hports":
        res = list(start.get_hports() if m else sdn.get_hports(start))
    else:
        res = list(start.get_hpins() if m else sdn.get_hpins(start))
    w.last_trace = (start, res)


def hw_key(h):
    """(instance path ids, wire id) of a hierarchical wire reference."""
    c = chain(h)
    return (ids(c[:-2]), id(c[-1]))


class TraceGen:
    def __init__(self, w, rng, cfg, b):
        self.w, self.r, self.cfg, self.b = w, rng, cfg, b
        self.left = cfg["n_traces"]

    def __call__(self):
        e = self._call()
        if e is not None and e.get("op") == "htrace" and e["kind"] in ("hwire", "hcable") and self.r.random() < 0.2:
            e["plain"] = True
            e.pop("via", None)
        return e

    def net(self):
        """The netlist under trace: the built one, or its clone (the last netlist bound)."""
        hs = [h for h in self.w.order if kind_of(self.w.handles[h]) == "netlist"]
        return self.w.handles[hs[-1]] if self.cfg.get("trace_clone") and len(hs) > 1 else self.w.h(self.b.netlist)

    def _call(self):
        if self.cfg.get("trace_clone") and not getattr(self, "cloned", False):
            # the design is copied first and the copy is what gets traced (a copy answers like its source)
            self.cloned = True
            return {"op": "clone", "on": self.b.netlist}
        if self.cfg.get("trace_repoint") and getattr(self, "stage", 0) < 2:
            e = self.repoint()
            if e is not None:
                return e
        if getattr(self, "pending", None):
            return self.pending.pop(0)
        if self.left > 0 and self.r.random() < self.cfg.get("edit_rate", 0.0):
            e = self.edit()
            if e:
                self.pending = e[1:]
                return e[0]
        e = self.draw()
        if e is not None and self.r.random() < 0.3:
            e["via"] = "method"
        return e

    def repoint(self):
        """Before the traces an instance is pointed at a copy of its cell (what uniquify does for every shared cell):
        the cell is cloned, the copy put into the library under a new name, and the instance's reference assigned."""
        w, r = self.w, self.r
        hd = w.handle_of
        self.stage = getattr(self, "stage", 0) + 1
        if self.stage == 1:
            n = self.net()
            c = [(d, i) for lib in n.libraries for d in lib.definitions if len(d.ports) and hd(d) and hd(lib)
                 for i in sorted(d.references, key=lambda i: hd(i) or "") if hd(i) and i.parent is not None]
            if not c:
                self.stage = 2
                return None
            d, i = r.choice(c)
            self.rp = (hd(i), hd(d.library))
            return {"op": "clone", "on": hd(d)}
        fresh = [h for h in w.order if kind_of(w.handles[h]) == "definition" and w.handles[h].library is None]
        if not fresh:
            return None
        ih, lh = self.rp
        self.pending = [{"op": "add_definition", "on": lh, "x": fresh[-1]},
                        {"op": "set_reference", "on": ih, "x": fresh[-1]}]
        return {"op": "set_name", "on": fresh[-1], "v": "repointed_cell_copy"}

    def edit(self):
        """Between two traces a wire trades one of its pins for a free pin of the same definition (the number of pins
        stays), or a pin is dropped or added: anything remembered from an earlier trace is stale now."""
        w, r = self.w, self.r
        n = self.net()
        hd = w.handle_of

        def ref(p):
            if kind_of(p) == "ipin":
                return hd(p) and {"k": "in", "h": hd(p)}
            ih, ph = hd(p.instance), hd(p.inner_pin)
            # (the caller names an instance pin either by the instance's own pin object or by a stand-in built from
            # (instance, inner pin), which compares equal to it)
            return ih and ph and {"k": "proxy" if r.random() < 0.35 else "stored", "i": ih, "p": ph}
        def ref_key(p):
            return (hd(p),) if kind_of(p) == "ipin" else (hd(p.instance), hd(p.inner_pin))
        defs = [d for lib in n.libraries for d in lib.definitions]
        r.shuffle(defs)
        for d in defs[:12]:
            wires = [wr for c in d.cables for wr in c.wires if hd(wr)]
            free = [p for port in d.ports for p in port.pins if p.wire is None]
            free += [op for c in d.children for op in c.pins.values() if op.wire is None]
            used = [wr for wr in wires if len(wr.pins)]
            if not wires:
                continue
            x = r.random()
            taken = [op for c in d.children for op in c.pins.values() if op.wire is not None and hd(op.wire)]
            if x < 0.12 and taken and len(wires) >= 2:
                # an instance pin that sits on a net already is offered to a second net, named by a stand-in: the call is
                # refused and nothing changes (were it accepted, the two nets would answer differently by start point)
                op = r.choice(taken)
                ih, ph = hd(op.instance), hd(op.inner_pin)
                other = [wr for wr in wires if wr is not op.wire]
                if ih and ph and other:
                    return [{"op": "connect_pin", "on": hd(r.choice(other)), "pin": {"k": "proxy", "i": ih, "p": ph}}]
            if x < 0.6 and used and free:
                wr = r.choice(used)
                a, b = ref(r.choice(list(wr.pins))), ref(r.choice(free))
                if a and b:
                    return [{"op": "disconnect_pin", "on": hd(wr), "pin": a}, {"op": "connect_pin", "on": hd(wr), "pin": b}]
            elif x < 0.8 and free:
                b = ref(r.choice(free))
                if b:
                    return [{"op": "connect_pin", "on": hd(r.choice(wires)), "pin": b}]
            elif used:
                wr = r.choice(used)
                if r.random() < 0.4:
                    # the bulk call: some of the net's pins (instance pins named by their own object or by a stand-in)
                    # come off in one call, handed over as a list or as a set
                    pins = sorted(wr.pins, key=lambda q: repr(ref_key(q)))
                    xs = [ref(q) for q in r.sample(pins, r.randint(1, min(3, len(pins))))]
                    if all(xs):
                        return [{"op": "disconnect_pins_from", "on": hd(wr), "pins": xs,
                                 "as_set": r.choice([False, False, True])}]
                a = ref(r.choice(list(wr.pins)))
                if a:
                    return [{"op": "disconnect_pin", "on": hd(wr), "pin": a}]
        return None

    def draw(self):
        if self.left <= 0:
            return None
        self.left -= 1
        w, r = self.w, self.r
        n = self.net()
        el = Elab(n)
        hd = w.handle_of
        for _ in range(30):
            p = r.choice(el.occ)
            d = p[-1].reference
            if d is None:
                continue
            kind = r.choice(["hwire", "hwire", "hpin", "hpin", "hport", "hcable"])
            path = [hd(i) for i in p]
            if kind in ("hwire", "hcable"):
                cabs = [c for c in d.cables if len(c.wires)]
                if not cabs:
                    continue
                c = r.choice(cabs)
                if kind == "hcable":
                    return {"op": "htrace", "kind": kind, "path": path, "item": [hd(c)],
                            "fn": r.choice(["hwires", "hwires", "hcables"]), "sel": "ALL"}
                wr = r.choice(list(c.wires))
                x = r.random()
                if x < 0.55:
                    return {"op": "htrace", "kind": kind, "path": path, "item": [hd(c), hd(wr)], "fn": "hwires",
                            "sel": "ALL"}
                if x < 0.7:
                    return {"op": "htrace", "kind": kind, "path": path, "item": [hd(c), hd(wr)], "fn": "hcables",
                            "sel": "ALL"}
                return {"op": "htrace", "kind": kind, "path": path, "item": [hd(c), hd(wr)],
                        "fn": "hpins" if x < 0.87 else "hports", "sel": "INSIDE"}
            ports = [q for q in d.ports if len(q.pins)]
            if not ports:
                continue
            q = r.choice(ports)
            if kind == "hport":
                return {"op": "htrace", "kind": kind, "path": path, "item": [hd(q)], "fn": "hwires", "sel": "ALL"}
            pin = r.choice(list(q.pins))
            return {"op": "htrace", "kind": kind, "path": path, "item": [hd(q), hd(pin)], "fn": "hwires",
                    "sel": r.choice(["ALL", "ALL", "INSIDE", "OUTSIDE"])}
        return None


class C12(Prop):
    id = "C12"
    engine = "hier"
    fit = "C"
    rule = ("one evaluation = one generated hierarchical design (nets spanning several levels, nets touching "
            "only instance pins, only ports or nothing, shared definitions reached by several paths, "
            "pass-through cells, unconnected sides) and up to 24 sampled start points of every kind (hierarchical "
            "wire, cable, pin, port) traced with selection ALL / INSIDE / OUTSIDE and get_hpins, with connection edits "
            "between traces (a pin traded, added or dropped by the single or the bulk disconnect call, instance pins "
            "named by their stored object or by a stand-in, refused double connections, re-pointed instances); each answer is "
            "compared with the equivalence class of an independent union-find elaboration; non-trivial = at "
            "least one trace whose expected net spans more than one level; distinct = distinct (event-kind "
            "multiset, final fingerprint) pairs")
    relevant_ops = {"htrace"}
    components_real = REAL
    components_stub = STUB
    assumptions = ["designs are well-formed and self-contained (built by valid API calls only)",
                   "ALL from a hierarchical pin means the closure of its inside and outside wires; from a port or "
                   "cable the union over its members"]
    runs = {"quick": 6000, "thorough": 150000}

    def configure(self, rng, tier):
        cfg = hier_config(rng)
        cfg["steps"] = 10 ** 6
        cfg["rewrap"] = rng.choice([False, False, True])
        cfg["n_traces"] = rng.choice([6, 12, 24])
        cfg["connect_rate"] = rng.choice([0.6, 0.9, 0.9])
        cfg["passthrough"] = rng.random() < 0.7
        cfg["edit_rate"] = rng.choice([0.0, 0.0, 0.15, 0.3])
        cfg["trace_clone"] = rng.random() < 0.15
        # one instance is pointed at a copy of its cell first (what uniquify does for every shared cell), then the
        # design is traced; some elements carry no name (pairing by name has nothing to hold on to)
        cfg["trace_repoint"] = not cfg["trace_clone"] and rng.random() < 0.25
        cfg["unnamed"] = rng.choice([0.0, 0.0, 0.3, 0.5])
        return cfg

    def make_gen(self, w, rng, cfg):
        b = Builder(rng, cfg)
        ev = b.build()
        return ScriptGen(ev, TraceGen(w, rng, cfg, b))

    def start(self, w, cfg):
        w.last_trace = None
        self.elab = None
        self.cfg = cfg

    def after(self, w, ev, outcome, pre):
        if ev["op"] != "htrace":
            return
        disc = "%s%s/%s/%s" % ("plain_" if ev.get("plain") else "", ev["kind"], ev["fn"], ev["sel"])
        if outcome != "ok":
            raise Violation("C12.raised", disc + ":" + outcome.split(":", 1)[-1], "trace raised %s" % outcome)
        start, res = w.last_trace
        n = [w.handles[h] for h in w.order if kind_of(w.handles[h]) == "netlist"][-1 if self.cfg.get("trace_clone") else 0]
        el = Elab(n)
        if ev.get("plain"):
            # expected = the union of the answers for every occurrence of the element's definition
            item = tuple(w.h(h) for h in ev["item"])
            d = item[0].definition
            occs = [tuple(p) for p in el.occ if p[-1].reference is d]
        else:
            sc = chain(start)
            occs = [tuple(x for x in sc if kind_of(x) == "instance")]
            item = sc[len(occs[0]):]
        seen = set()
        for h in res:
            k = ids(chain(h))
            if k in seen:
                raise Violation("C12.duplicate", disc, "the same hierarchical item is returned twice")
            seen.add(k)
            if not h.is_valid:
                raise Violation("C12.invalid_result", disc, "an invalid reference is returned")

        def cls_of(path, wire):
            if wire is None:
                return set()
            return el.net_of(path, wire)

        insts = occs[0] if occs else ()

        def sides(pin):
            """(inside hwire key, outside hwire key) of hierarchical pin (insts, port, pin)."""
            inner = pin.wire
            outer = None
            if len(insts) > 1:
                op = insts[-1].pins.get(pin)
                if op is not None:
                    outer = op.wire
            return inner, outer

        fn, sel = ev["fn"], ev["sel"]
        if fn == "hpins":
            wire = item[-1]
            want = set()
            for insts in occs:
                for p in wire.pins:
                    if kind_of(p) == "ipin":
                        want.add(ids(insts + (p.port, p)))
                    else:
                        want.add(ids(insts + (p.instance, p.inner_pin.port, p.inner_pin)))
            if seen != want:
                raise Violation("C12.hpins_of_hwire", "missing" if want - seen else "extra",
                                "get_hpins(hwire): expected %d pins, got %d" % (len(want), len(seen)))
            return
        if fn == "hports":
            # the ports whose pins are attached to the wire: of the wire's own definition and of its sub-instances
            wire = item[-1]
            want = set()
            for insts in occs:
                for p in wire.pins:
                    if kind_of(p) == "ipin":
                        want.add(ids(insts + (p.port,)))
                    else:
                        want.add(ids(insts + (p.instance, p.inner_pin.port)))
            if seen != want:
                raise Violation("C12.hports_of_hwire", "missing" if want - seen else "extra",
                                "get_hports(hwire): expected %d ports, got %d" % (len(want), len(seen)))
            return
        got_wires = set(hw_key(h) for h in res) if fn == "hwires" else None
        if ev["kind"] == "hwire":
            want = set()
            for insts in occs:
                want |= cls_of(insts, item[-1])
        elif ev["kind"] == "hcable":
            want = set()
            for insts in occs:
                for wr in item[0].wires:
                    want |= cls_of(insts, wr)
        elif ev["kind"] == "hport":
            want = set()
            for pin in item[0].pins:
                i, o = sides(pin)
                want |= cls_of(insts, i) | cls_of(insts[:-1], o)
        else:
            i, o = sides(item[-1])
            if sel == "ALL":
                want = cls_of(insts, i) | cls_of(insts[:-1], o)
            elif sel == "INSIDE":
                want = cls_of(insts, i) and {(ids(insts), id(i))}
            else:
                want = cls_of(insts[:-1], o) and {(ids(insts[:-1]), id(o))}
        if len(set(k[0] for k in want)) > 1:
            w.count("probe.net_spans_levels")
        if fn == "hcables":
            # cables of the net: (path, cable of wire)
            wmap = dict((k, v) for k, v in el.hw.items())
            want_c = set((k[0], id(wmap[k][1].cable)) for k in want)
            got_c = set((ids(chain(h)[:-1]), id(chain(h)[-1])) for h in res)
            if got_c != want_c:
                which = "missing" if want_c - got_c else "extra"
                raise Violation("C12.all.%s" % which, disc, "cables of the net: expected %d, got %d" % (
                    len(want_c), len(got_c)))
            return
        if got_wires != want:
            which = "missing" if want - got_wires else "extra"
            clause = "C12.all.%s" % which if sel == "ALL" else "C12.%s" % sel.lower()
            raise Violation(clause, disc, "expected %d hierarchical wires, got %d" % (len(want), len(got_wires)))
        w.count("probe.traces_checked")


PROP = C12
