"""C18 - EBLIF files are read faithfully and survive write-then-read."""
from simkit.engine import Prop
from simkit import design_shrink, history
from simkit.gen_hier import ScriptGen
from simkit import corpus, textgen_eblif
from simkit.model import scan
from simkit.oracles.links import check_links
from simkit.oracles.mirror import check_mirror, check_self_contained, check_wire_endpoints
from simkit.violation import Violation
from simkit.world import kind_of

REAL = ["spydrnet.parsers.eblif (tokenizer, parser)", "spydrnet.composers.eblif", "spydrnet.ir.*", "namespace manager "
        "plugin"]
STUB = ["file system (SimFS), line reads", "process restart between write and read", "identity hash of IR objects "
        "(black-box set iteration)"]
IGNORED_LATCH_PORTS = ("type", "init-val")


def extract(netlist, by="index"):
    top = netlist.top_instance
    d = top.reference if top is not None else None
    if d is None:
        return None
    ports = dict((p.name, (p.direction.name, len(p.pins))) for p in d.ports)
    kids = list(d.children)
    insts = []
    for i in kids:
        insts.append({"type": i.get("EBLIF.type"), "model": i.reference.name if i.reference is not None else None,
                      "cname": i.get("EBLIF.cname"), "attrs": dict(i.get("EBLIF.attr", {}) or {}),
                      "params": dict(i.get("EBLIF.param", {}) or {}), "name": i.name,
                      "covers": list(i.get("EBLIF.output_covers", []) or []) if i.get("EBLIF.type") == "EBLIF.names" else None})
    groups = []
    for c in d.cables:
        for wr in c.wires:
            g = set()
            for pin in wr.pins:
                if kind_of(pin) == "ipin":
                    g.add(("port", pin.port.name, list(pin.port.pins).index(pin)))
                else:
                    ip = pin.inner_pin
                    if ip.port.name in IGNORED_LATCH_PORTS and pin.instance.reference.name == "generic-latch":
                        continue
                    key = [k for k, x in enumerate(kids) if x is pin.instance][0] if by == "index" else pin.instance.name
                    g.add(("inst", key, ip.port.name, list(ip.port.pins).index(ip)))
            if g:
                groups.append(frozenset(g))
    return {"top": d.name, "ports": ports, "insts": insts, "partition": frozenset(groups),
            "clock": list(d.get("EBLIF.clock", []) or [])}


class C18(Prop):
    id = "C18"
    engine = "textgen+disk"
    fit = "B"
    rule = ("one evaluation = one abstract flat design (.subckt/.gate/.names/.latch/.conn statements in any order, "
            "bus-indexed and scalar nets, unconn actuals, .cname/.attr/.param, line continuations, comments, black "
            "boxes declared after the top model or not at all) rendered to EBLIF by an independent writer, parsed "
            "from the simulated disk, compared with the model (instances in statement order, model ports, the "
            "partition of pins into nets, black boxes as leaf primitives), then written as EBLIF, optionally across "
            "a process restart, read back and compared again by instance name; bundled .eblif examples take the "
            "round-trip part only; non-trivial = at least one instance with a connected pin; distinct = distinct "
            "(event-kind multiset, final fingerprint) pairs")
    relevant_ops = {"parse", "compose"}
    components_real = REAL
    components_stub = STUB
    assumptions = ["the design's model is the first .model of the file (Symbiflow convention); black boxes follow it",
                   "the 'type' and 'init-val' fields of .latch are not nets and are ignored in the pin partition",
                   "nets are compared as sets of pins; cable names are not compared",
                   ".cname values are never the name of a net (the reader names unnamed cells after the net they "
                   "drive, so such a .cname would clash with a convention, not with the file)"]
    runs = {"quick": 10000, "thorough": 250000}

    def configure(self, rng, tier):
        r = rng
        cfg = {"steps": 10 ** 6}
        cfg["source"] = "gen" if r.random() < 0.85 else "example"
        if cfg["source"] == "example":
            cfg["example"] = r.choice(corpus.names("eblif", 20000 if tier == "quick" else 70000))
        cfg["gen"] = {"max_ports": r.choice([1, 3]), "max_blackboxes": r.choice([1, 3]), "max_stmts": r.choice([3, 6, 10])}
        cfg["render"] = {"comment_rate": r.choice([0.0, 0.2]), "continuations": r.random() < 0.6,
                         "allow_before": r.random() < 0.3}
        cfg["restart"] = r.random() < 0.3
        cfg["opts"] = r.choice([{}, {}, {"write_blackbox": True}, {"write_eblif_cname": True}])
        cfg["prior_rejected"] = r.random() < 0.2   # an earlier read of a broken text in the same process
        return cfg

    def make_gen(self, w, rng, cfg):
        ev = []
        if cfg["source"] == "example":
            ev.append({"op": "fs_put_example", "name": cfg["example"], "path": "sim://in.eblif"})
        else:
            d = textgen_eblif.gen_design(rng, cfg["gen"])
            rs = rng.getrandbits(32)
            if cfg.get("prior_rejected"):
                ev.extend(history.prior_rejected(rng, design_shrink.render("eblif", d, rs, cfg["render"]), "sim://bad.eblif"))
            ev.append({"op": "fs_put", "path": "sim://in.eblif", "text": design_shrink.render("eblif", d, rs, cfg["render"]),
                       "design": d, "fmt": "eblif", "render": cfg["render"], "render_seed": rs})
        ev.append({"op": "parse", "path": "sim://in.eblif", "tag": "read"})
        net = "e%d.0" % (len(ev) - 1)
        ev.append({"op": "compose", "on": net, "path": "sim://out.eblif", "opts": cfg["opts"], "tag": "write"})
        if cfg["restart"]:
            ev.append({"op": "restart"})
        ev.append({"op": "parse", "path": "sim://out.eblif", "tag": "reread"})
        return ScriptGen(ev)

    def start(self, w, cfg):
        self.design = None
        self.first = None
        self.stop = False

    def before(self, w, ev):
        if ev["op"] == "fs_put" and not ev.get("prior"):
            self.design = ev.get("design")

    def after(self, w, ev, outcome, pre):
        tag = ev.get("tag")
        if tag is None or self.stop:
            return
        src = "gen" if self.design else "example"
        if tag == "read":
            if outcome != "ok":
                raise Violation("C18.reader_rejected", "%s:%s:%s" % (src, outcome.split(":", 1)[-1],
                                                                  str(getattr(w, "last_error", ""))[:30]),
                                "the reader raised %s (%s)" % (outcome, getattr(w, "last_error", "")))
            n = w.h("e%d.0" % ev["i"])
            objs, _ = scan([n])
            check_links(objs, src, w.name_of, P="C18.wellformed")
            check_mirror(objs, src, w.name_of, P="C18.wellformed")
            check_self_contained(n, objs, src, w.name_of, "C18.wellformed")
            check_wire_endpoints(n, src, w.name_of, P="C18.wellformed")
            if self.design:
                self.compare_model(w, n)
            self.first = extract(n, by="name")
            if self.first is None:
                raise Violation("C18.read.no_top", src, "the parsed netlist has no top instance (or it has no definition)")
            if any(g for g in self.first["partition"]):
                w.count("probe.design_with_connections")
        elif tag == "write":
            if outcome != "ok":
                raise Violation("C18.writer_rejected", "%s:%s:%s" % (src, outcome.split(":", 1)[-1],
                                                                  str(getattr(w, "last_error", ""))[:30]),
                                "compose raised %s (%s)" % (outcome, getattr(w, "last_error", "")))
        elif tag == "reread":
            if outcome != "ok":
                raise Violation("C18.roundtrip.reader_rejected", "%s:%s:%s" % (src, outcome.split(":", 1)[-1],
                                                                            str(getattr(w, "last_error", ""))[:30]),
                                "the reader raised %s (%s) on text the EBLIF writer produced" % (
                                    outcome, getattr(w, "last_error", "")))
            n = w.h("e%d.0" % ev["i"])
            b = extract(n, by="name")
            a = self.first
            if b is None:
                raise Violation("C18.roundtrip.no_top", src, "the netlist read back from the written text has no top "
                                                            "instance (or it has no definition)")
            names_a = [i["name"] for i in a["insts"]]
            if len(set(names_a)) != len(names_a):
                w.count("probe.duplicate_instance_names_skip")
                return
            if a["top"] != b["top"]:
                raise Violation("C18.roundtrip.top", src, "%r vs %r" % (a["top"], b["top"]))
            if a["ports"] != b["ports"]:
                raise Violation("C18.roundtrip.ports", src, "%r vs %r" % (a["ports"], b["ports"]))
            ia = dict((i["name"], (i["type"], i["model"], i["attrs"], i["params"], i["covers"])) for i in a["insts"])
            ib = dict((i["name"], (i["type"], i["model"], i["attrs"], i["params"], i["covers"])) for i in b["insts"])
            if ia != ib:
                k = sorted((k for k in set(ia) | set(ib) if ia.get(k) != ib.get(k)), key=repr)[0]
                what = "instances" if (k not in ia or k not in ib) else (
                    "types" if ia[k][0] != ib[k][0] else ("model" if ia[k][1] != ib[k][1] else "data"))
                raise Violation("C18.roundtrip.%s" % what, src, "instance %r: %r vs %r" % (k, ia.get(k), ib.get(k)))
            if a["partition"] != b["partition"]:
                lost = sorted(a["partition"] - b["partition"], key=repr)[:1]
                new = sorted(b["partition"] - a["partition"], key=repr)[:1]
                raise Violation("C18.roundtrip.nets", src, "net %r became %r" % (
                    [sorted(x, key=repr) for x in lost], [sorted(x, key=repr) for x in new]))
            w.count("probe.roundtrips_compared")

    def compare_model(self, w, n):
        want = textgen_eblif.expected(_fix(self.design))
        got = extract(n, by="index")
        if got is None or got["top"] != want["top"]:
            raise Violation("C18.top", "gen", "top model %r vs %r" % (got and got["top"], want["top"]))
        if got["ports"] != want["ports"]:
            raise Violation("C18.ports", "gen", "%r vs %r" % (got["ports"], want["ports"]))
        if len(got["insts"]) != len(want["insts"]):
            raise Violation("C18.instances", "count", "%d instances, %d statements" % (len(got["insts"]), len(want["insts"])))
        for k, (g, x) in enumerate(zip(got["insts"], want["insts"])):
            if g["type"] != x["type"]:
                raise Violation("C18.types", x["type"], "statement %d: type %r" % (k, g["type"]))
            if g["model"] != x["model"]:
                raise Violation("C18.instances", "model", "statement %d: model %r vs %r" % (k, g["model"], x["model"]))
            if g["cname"] != x["cname"] or (x["cname"] is not None and g["name"] != x["cname"]):
                raise Violation("C18.data", "cname", "statement %d: cname %r / name %r vs %r" % (k, g["cname"], g["name"], x["cname"]))
            if g["attrs"] != x["attrs"] or g["params"] != x["params"]:
                raise Violation("C18.data", "attr_param", "statement %d: %r %r vs %r %r" % (
                    k, g["attrs"], g["params"], x["attrs"], x["params"]))
            if x["type"] == "EBLIF.names" and g["covers"] != x["covers"]:
                raise Violation("C18.data", "covers", "statement %d: covers %r vs %r" % (k, g["covers"], x["covers"]))
        if got["partition"] != want["partition"]:
            lost = sorted(want["partition"] - got["partition"], key=repr)[:1]
            new = sorted(got["partition"] - want["partition"], key=repr)[:1]
            has_conn = any(s["kind"] == "conn" for s in self.design["stmts"])
            raise Violation("C18.conn" if has_conn else "C18.nets", "gen", "expected net %r, got %r" % (
                [sorted(x, key=repr) for x in lost], [sorted(x, key=repr) for x in new]))
        if got["clock"] != want["clock"]:
            raise Violation("C18.data", "clock", "%r vs %r" % (got["clock"], want["clock"]))
        prim = [l for l in n.libraries if l.name == "hdi_primitives"][0]
        pd = dict((d.name, d) for d in prim.definitions)
        used = set(s["model"] for s in self.design["stmts"] if s["kind"] in ("subckt", "gate"))
        for name, declared in want["blackboxes"].items():
            if not declared and name not in used:
                continue
            d = pd.get(name)
            if d is None:
                raise Violation("C18.blackbox", "missing", "black box %r is not in hdi_primitives" % name)
            if len(d.children) or len(d.cables):
                raise Violation("C18.blackbox", "not_leaf", "black box %r has cables or children" % name)
        w.count("probe.designs_compared")


def _fix(x):
    """JSON round trips turn tuples into lists."""
    if isinstance(x, list):
        return tuple(_fix(y) for y in x) if (len(x) in (2, 3) and not any(isinstance(y, dict) for y in x)
                                             and not (x and isinstance(x[0], list))) else [_fix(y) for y in x]
    if isinstance(x, dict):
        return dict((k, _fix(v)) for k, v in x.items())
    return x


PROP = C18
