"""C11 - hierarchical references enumerate each occurrence exactly once and are canonical."""
from simkit.engine import Prop
from simkit.gen_hier import hier_config, Builder, ScriptGen
from simkit.oracles.elab import Elab
from simkit.violation import Violation
from simkit.world import kind_of
from simkit import oplang
from simkit.oplang import need, Skip

import spydrnet as sdn
from spydrnet.util.hierarchical_reference import HRef

REAL = ["spydrnet.util.hierarchical_reference (HRef, flyweight table)", "spydrnet.util.get_hinstances/hports/"
        "hpins/hcables/hwires", "spydrnet.ir.*", "namespace manager plugin"]
STUB = ["identity hash of IR objects (PRNG chosen; HRef hashes derive from it)", "GC schedule / reference "
        "dropping (flyweight weak table)"]

FNS = {"hinstances": sdn.get_hinstances, "hports": sdn.get_hports, "hpins": sdn.get_hpins,
       "hcables": sdn.get_hcables, "hwires": sdn.get_hwires}
ITEM_KIND = {"hinstances": "instance", "hports": "port", "hpins": "ipin", "hcables": "cable", "hwires": "wire"}


def chain(h):
    out = []
    while h is not None:
        out.append(h.item)
        h = h.parent
    out.reverse()
    return tuple(out)


def ids(t):
    return tuple(id(x) for x in t)


def netlist_of_top(top):
    try:
        return top.reference.library.netlist
    except AttributeError:
        return None


def expected_name(path):
    """Slash-joined names below the top, plus [index] for members of array bundles."""
    items = list(path)
    last = items[-1]
    idx = ""
    k = kind_of(last)
    if k == "ipin":
        port = items[-2]
        if port.is_array:
            idx = "[%d]" % (port.lower_index + list(port.pins).index(last))
        items = items[:-1]
    elif k == "wire":
        cab = items[-2]
        if cab.is_array:
            idx = "[%d]" % (cab.lower_index + list(cab.wires).index(last))
        items = items[:-1]
    names = [(x.name if x.name is not None else "") for x in items[1:]]
    return "/".join(names) + idx


class Enum:
    """Independent enumeration of every hierarchical item of a netlist, by kind."""

    def __init__(self, netlist):
        self.el = Elab(netlist)
        self.occ = self.el.occ
        self.occ_ids = set(ids(p) for p in self.occ)

    def descendants(self, base, recursive):
        out = []
        for b in base:
            n = len(b)
            bid = ids(b)
            for p in self.occ:
                if len(p) > n and ids(p[:n]) == bid and (recursive or len(p) == n + 1):
                    out.append(p)
        return out

    def items(self, occs, kind):
        out = []
        for p in occs:
            d = p[-1].reference
            if d is None:
                continue
            if kind == "port":
                out.extend(p + (x,) for x in d.ports)
            elif kind == "ipin":
                out.extend(p + (x, y) for x in d.ports for y in x.pins)
            elif kind == "cable":
                out.extend(p + (x,) for x in d.cables)
            elif kind == "wire":
                out.extend(p + (x, y) for x in d.cables for y in x.wires)
        return out

    def ending_in_instance(self, pred):
        return [p for p in self.occ if pred(p[-1])]

    def path_exists(self, path):
        insts = tuple(x for x in path if kind_of(x) == "instance")
        rest = path[len(insts):]
        if ids(insts) not in self.occ_ids:
            return False
        d = insts[-1].reference
        if not rest:
            return True
        if d is None:
            return False
        b = rest[0]
        if kind_of(b) == "port":
            if not any(b is x for x in d.ports):
                return False
            return len(rest) == 1 or any(rest[1] is x for x in b.pins)
        if kind_of(b) == "cable":
            if not any(b is x for x in d.cables):
                return False
            return len(rest) == 1 or any(rest[1] is x for x in b.wires)
        return False


def expected_set(en, fn, root_kind, root_obj, recursive):
    """Exact expected result as a set of id-tuples, or None when the meaning is not fixed."""
    kind = ITEM_KIND[fn]
    if root_kind in ("netlist", "href", "instance", "definition"):
        if root_kind == "netlist":
            if en.el.top is None or en.el.top.reference is None:
                return set() if en.el.top is None else None
            base = [(en.el.top,)]
        elif root_kind == "href":
            base = [root_obj]
        elif root_kind == "instance":
            base = en.ending_in_instance(lambda i: i is root_obj)
        else:
            base = en.ending_in_instance(lambda i: i.reference is root_obj)
        if kind == "instance":
            if root_kind in ("netlist", "href"):
                return set(ids(p) for p in en.descendants(base, recursive))
            return set(ids(p) for p in base)
        occs = list(base)
        if recursive:
            occs += en.descendants(base, True)
        return set(ids(p) for p in en.items(occs, kind))
    if root_kind == "library":
        # a library stands for its definitions, a collection for its members: the union, each occurrence once
        parts = [expected_set(en, fn, "definition", d, recursive) for d in root_obj.definitions]
        return set().union(*parts) if all(p is not None for p in parts) else None
    if root_kind == "list":
        parts = [expected_set(en, fn, "href" if isinstance(o, tuple) else kind_of(o), o, recursive) for o in root_obj]
        return set().union(*parts) if all(p is not None for p in parts) else None
    # plain element of the same kind as the function returns: all paths that end in it
    same = {"port": "hports", "ipin": "hpins", "cable": "hcables", "wire": "hwires"}
    if same.get(root_kind) == fn:
        if root_kind == "port":
            d = root_obj.definition
            tail = (root_obj,)
        elif root_kind == "cable":
            d = root_obj.definition
            tail = (root_obj,)
        elif root_kind == "ipin":
            d = root_obj.port.definition if root_obj.port is not None else None
            tail = (root_obj.port, root_obj)
        else:
            d = root_obj.cable.definition if root_obj.cable is not None else None
            tail = (root_obj.cable, root_obj)
        if d is None:
            return set()
        return set(ids(p + tail) for p in en.ending_in_instance(lambda i: i.reference is d))
    return None


@oplang.op("hquery")
def _(w, e):
    root = e["root"]
    if root["r"] == "h":
        obj = need(w, root["h"])
    elif root["r"] == "list":
        obj = [need(w, m) if isinstance(m, str) else HRef.from_sequence([need(w, h) for h in m]) for m in root["members"]]
    else:
        seq = [need(w, h) for h in root["path"]]
        obj = HRef.from_sequence(seq)
    if e.get("via") == "method" and not isinstance(obj, list):
        # the shortcut spelling  obj.get_hx(...)  of  sdn.get_hx(obj, ...)
        res = list(getattr(obj, "get_" + e["fn"])(recursive=e.get("recursive", False)))
    else:
        res = list(FNS[e["fn"]](list(obj) if isinstance(obj, list) else obj, recursive=e.get("recursive", False)))
    w.last_query = (obj, res)
    if e.get("hold"):
        w.held_hrefs.append(res)
        w.count("probe.results_held")
    return None


@oplang.op("hdrop")
def _(w, e):
    if not w.held_hrefs:
        raise Skip("nothing held")
    w.held_hrefs.pop(e.get("k", 0) % len(w.held_hrefs))
    w.count("probe.results_dropped")


@oplang.op("hrecheck")
def _(w, e):
    pass


class EditGen:
    """Valid edits that break or keep hierarchical paths."""

    def __init__(self, w, rng, b):
        self.w, self.r, self.b = w, rng, b

    def hd(self, o):
        return self.w.handle_of(o)

    @staticmethod
    def reaches(src, dst):
        """Does definition ``src`` instantiate ``dst`` (transitively, or is it dst)?"""
        seen = set()
        stack = [src]
        while stack:
            d = stack.pop()
            if d is dst:
                return True
            if d is None or id(d) in seen:
                continue
            seen.add(id(d))
            stack.extend(c.reference for c in d.children)
        return False

    def next_edit(self):
        r = self.r
        w = self.w
        n = w.h(self.b.netlist)
        defs = [d for lib in n.libraries for d in lib.definitions]
        for _ in range(20):
            x = r.random()
            d = r.choice(defs) if defs else None
            if d is None:
                return None
            if x < 0.2 and len(d.children):
                c = r.choice(list(d.children))
                return {"op": "remove_child", "on": self.hd(d), "x": self.hd(c)}
            if x < 0.35 and len(d.children):
                c = r.choice(list(d.children))
                sh = tuple(len(p.pins) for p in c.reference.ports) if c.reference is not None else None
                comp = [z for z in defs if tuple(len(p.pins) for p in z.ports) == sh]
                comp = [z for z in comp if not self.reaches(z, d)]  # never build a recursive hierarchy
                t = r.choice(comp) if comp and r.random() < 0.8 else None
                return {"op": "set_reference", "on": self.hd(c), "x": t and self.hd(t)}
            if x < 0.45 and len(d.ports):
                return {"op": "remove_port", "on": self.hd(d), "x": self.hd(r.choice(list(d.ports)))}
            if x < 0.55 and len(d.cables):
                return {"op": "remove_cable", "on": self.hd(d), "x": self.hd(r.choice(list(d.cables)))}
            if x < 0.65 and d.library is not None:
                return {"op": "remove_definition", "on": self.hd(d.library), "x": self.hd(d)}
            if x < 0.75:
                t = r.choice(defs)
                return {"op": "set_top", "on": self.b.netlist, "x": self.hd(t) if r.random() < 0.8 else None}
            if x < 0.85:
                orphans = [(h, o) for h, o in ((h, w.handles[h]) for h in w.order)
                           if kind_of(o) == "instance" and o.parent is None and not o.is_top_instance]
                orphans = [x for x in orphans if not self.reaches(x[1].reference, d)]
                if orphans:
                    return {"op": "add_child", "on": self.hd(d), "x": r.choice(orphans)[0]}
            if x < 0.88 and len(d.ports):
                p = r.choice(list(d.ports))
                if len(p.pins):
                    return {"op": "remove_pin", "on": self.hd(p), "x": self.hd(r.choice(list(p.pins)))}
            if x < 0.94:
                # re-parent: a wire moves to another cable / a pin to another port (the old path is gone although the
                # item still has a parent of the right kind)
                if r.random() < 0.5:
                    cabs = [c for c in d.cables if len(c.wires)]
                    others = [c for dd in defs for c in dd.cables]
                    if cabs and len(others) > 1:
                        c = r.choice(cabs)
                        to = r.choice([o for o in others if o is not c])
                        wr = r.choice(list(c.wires))
                        if not wr.pins and self.hd(wr) and self.hd(to):
                            return [{"op": "remove_wire", "on": self.hd(c), "x": self.hd(wr)},
                                    {"op": "add_wire", "on": self.hd(to), "x": self.hd(wr)}]
                else:
                    ports = [p for p in d.ports if len(p.pins)]
                    others = [p for dd in defs for p in dd.ports]
                    if ports and len(others) > 1:
                        p = r.choice(ports)
                        to = r.choice([o for o in others if o is not p])
                        pin = r.choice(list(p.pins))
                        if self.hd(pin) and self.hd(to):
                            return [{"op": "remove_pin", "on": self.hd(p), "x": self.hd(pin)},
                                    {"op": "add_pin", "on": self.hd(to), "x": self.hd(pin)}]
            if x < 1.0:
                cabs = [c for c in d.cables if len(c.wires)]
                if cabs:
                    c = r.choice(cabs)
                    return {"op": "remove_wire", "on": self.hd(c), "x": self.hd(r.choice(list(c.wires)))}
        return None


class QueryGen:
    def __init__(self, w, rng, cfg, b):
        self.w, self.r, self.cfg, self.b = w, rng, cfg, b
        self.edit = EditGen(w, rng, b)
        plan = []
        nq = cfg["n_queries"]
        plan += ["q"] * nq
        if cfg["gc"]:
            plan.insert(rng.randint(0, len(plan)), "gc")
        for _ in range(cfg["n_drops"]):
            plan.insert(rng.randint(1, len(plan)), "drop")
        plan += ["edit"] * cfg["n_edits"]
        if cfg["n_edits"]:
            if cfg["gc"]:
                plan.append("gc")
            plan.append("recheck")
            plan += ["q"] * max(2, nq // 2)
        self.plan = plan
        self.k = 0

    def __call__(self):
        if getattr(self, "pending", None):
            return self.pending.pop(0)
        while self.k < len(self.plan):
            what = self.plan[self.k]
            self.k += 1
            if what == "gc":
                return {"op": "gc"}
            if what == "drop":
                return {"op": "hdrop", "k": self.r.randint(0, 5)}
            if what == "recheck":
                return {"op": "hrecheck", "pseed": self.r.randint(0, 10 ** 9)}
            if what == "edit":
                e = self.edit.next_edit()
                if isinstance(e, list):
                    self.pending = e[1:]
                    e = e[0]
                if e is not None and e.get("on") is not None:
                    return e
                continue
            q = self.query()
            if q is not None:
                return q
        return None

    def query(self):
        r, w = self.r, self.w
        n = w.h(self.b.netlist)
        fn = r.choice(sorted(FNS))
        x = r.random()
        rec = r.random() < 0.5
        if x < 0.35:
            root = {"r": "h", "h": self.b.netlist}
        elif x < 0.6:
            try:
                el = Elab(n)
            except OverflowError:
                return None
            if not el.occ:
                return None
            p = r.choice(el.occ)
            hs = [w.handle_of(i) for i in p]
            if any(h is None for h in hs):
                return None
            root = {"r": "occ", "path": hs}
        elif x < 0.72:
            # a collection of roots from different levels of the design (and sometimes a path)
            c = [h for h in w.order if kind_of(w.handles[h]) in ("instance", "definition", "library")]
            if not c:
                return None
            members = [r.choice(c) for _ in range(r.randint(1, 3))]
            if r.random() < 0.35:
                members.append(self.b.netlist)
            for _ in range(r.choice([0, 0, 1, 2])):
                try:
                    el = Elab(n)
                except OverflowError:
                    return None
                if el.occ:
                    # references to occurrences, short paths preferred (a root that is a child occurrence of another
                    # root of the same query)
                    occ = sorted(el.occ, key=len)
                    hs = [w.handle_of(i) for i in r.choice(occ[:max(1, len(occ) // 2)] if r.random() < 0.6 else occ)]
                    if all(h is not None for h in hs):
                        members.append(hs)
            r.shuffle(members)
            if len(members) < 2:
                return None
            root = {"r": "list", "members": members}
        else:
            kind = r.choice(["instance", "definition", "port", "cable", "ipin", "wire", "library"])
            c = [h for h in w.order if kind_of(w.handles[h]) == kind]
            if not c:
                return None
            root = {"r": "h", "h": r.choice(c)}
        return {"op": "hquery", "fn": fn, "root": root, "recursive": rec, "hold": r.random() < 0.6,
                "via": "method" if (root["r"] != "list" and r.random() < 0.3) else None}


class C11(Prop):
    id = "C11"
    engine = "hier"
    fit = "A"
    rule = ("one evaluation = one generated hierarchical design (shared definitions at several depths, unnamed "
            "items, array and scalar bundles) followed by a seeded sequence of get_h* queries over every root "
            "kind with recursive on/off, holding or dropping results, GC events, then path-breaking edits, a "
            "re-check of every held reference and more queries; each query result is compared with an "
            "independent path enumeration (exact set where the meaning is fixed, generic validity/name/"
            "flyweight checks always); non-trivial = at least one query with a non-empty result; distinct = "
            "distinct (event-kind multiset, final fingerprint) pairs")
    relevant_ops = {"hquery"}
    components_real = REAL
    components_stub = STUB
    assumptions = ["exact-set expectations are asserted only for roots whose meaning the statement and docstrings "
                   "fix: netlist, HRef to an instance, plain instance/definition, and a plain element queried for "
                   "its own kind",
                   "is_unique is read as: valid and exactly one top-rooted path ends in the reference's last "
                   "instance"]
    runs = {"quick": 6000, "thorough": 150000}

    def configure(self, rng, tier):
        cfg = hier_config(rng)
        cfg["unnamed"] = rng.choice([0.0, 0.0, 0.3])
        cfg["array_rate"] = rng.choice([0.0, 0.3, 0.6])
        cfg["steps"] = 10 ** 6
        cfg["rewrap"] = rng.choice([False, False, False, True])
        cfg["n_queries"] = rng.choice([4, 8, 14])
        cfg["n_edits"] = rng.choice([0, 1, 3, 6])
        cfg["n_drops"] = rng.choice([0, 1, 3])
        cfg["gc"] = rng.random() < 0.5
        cfg["top_name"] = rng.random() < 0.8
        return cfg

    def make_gen(self, w, rng, cfg):
        b = Builder(rng, cfg)
        ev = b.build()
        self.netlist_h = b.netlist
        return ScriptGen(ev, QueryGen(w, rng, cfg, b))

    def start(self, w, cfg):
        w.held_hrefs = []
        w.last_query = None
        self.netlist_h = None

    def _netlist(self, w):
        for h in w.order:
            if kind_of(w.handles[h]) == "netlist":
                return w.handles[h]
        return None

    def after(self, w, ev, outcome, pre):
        op = ev["op"]
        if op == "hquery":
            if outcome != "ok":
                raise Violation("C11.raised", "%s:%s" % (ev["fn"], outcome.split(":", 1)[-1]),
                                "get_%s raised %s" % (ev["fn"], outcome))
            self.check_query(w, ev)
        elif op == "hrecheck":
            self.recheck(w)
            if ev.get("pseed") is not None:
                self.bulk_held(w, ev["pseed"])

    # ---------------------------------------------------------------------------------
    def check_query(self, w, ev):
        obj, res = w.last_query
        fn = ev["fn"]
        n = self._netlist(w)
        try:
            en = Enum(n)
        except OverflowError:
            return
        root_kind = "href" if isinstance(obj, HRef) else "list" if isinstance(obj, list) else kind_of(obj)
        disc = "%s/%s/%s" % (fn, root_kind, "rec" if ev.get("recursive") else "flat")
        top = n.top_instance
        contained = self.pins_inside(en) and all(p[-1].reference is None or (p[-1].reference.library is not None and
                                                      p[-1].reference.library.netlist is n) for p in en.occ)
        if top is not None and not (netlist_of_top(top) is n and contained):
            # some definition of the design is not inside this netlist: what "the elaborated design" is, is not defined
            w.count("probe.query_on_unanchored_top_skipped")
            return
        seen = set()
        got = set()
        for h in res:
            if not isinstance(h, HRef):
                raise Violation("C11.result_type", disc, "result is not an HRef")
            if id(h) in seen:
                raise Violation("C11.enum.duplicate", disc, "the same reference object is returned twice")
            seen.add(id(h))
            path = chain(h)
            key = ids(path)
            if key in got:
                raise Violation("C11.enum.duplicate", disc, "two references to the same path are returned")
            got.add(key)
            if kind_of(h.item) != ITEM_KIND[fn]:
                raise Violation("C11.item_kind", disc, "get_%s returned a reference to a %s" % (fn, kind_of(h.item)))
            if not h.is_valid:
                raise Violation("C11.invalid_result", disc, "a returned reference reports invalid")
            if not en.path_exists(path):
                raise Violation("C11.enum.extra", disc, "a returned path does not exist in the elaborated design")
            if h.name != expected_name(path):
                raise Violation("C11.name", disc, "name %r, expected %r" % (h.name, expected_name(path)))
            again = HRef.from_sequence(list(path))
            if again is not h or hash(again) != hash(h):
                raise Violation("C11.flyweight_identity", disc, "a second reference to the same path is another object")
        if res:
            w.count("probe.nonempty_query")
        root_obj = chain(obj) if isinstance(obj, HRef) else obj
        if isinstance(obj, list):
            root_obj = [chain(o) if isinstance(o, HRef) else o for o in obj]
            if any(isinstance(o, tuple) and not en.path_exists(o) for o in root_obj):
                want = None
            else:
                want = expected_set(en, fn, "list", root_obj, bool(ev.get("recursive")))
        elif isinstance(obj, HRef) and kind_of(obj.item) != "instance":
            want = None
        elif isinstance(obj, HRef) and not en.path_exists(root_obj):
            want = set()
        else:
            want = expected_set(en, fn, root_kind, root_obj, bool(ev.get("recursive")))
        if want is not None:
            w.count("probe.exact_set_checked")
            if got - want:
                raise Violation("C11.enum.extra", disc, "%d unexpected references" % len(got - want))
            if want - got:
                raise Violation("C11.enum.missing", disc, "%d occurrences not returned (of %d)" % (
                    len(want - got), len(want)))

    @staticmethod
    def pins_inside(en):
        """Every pin of every elaborated definition is joined to a wire of that same definition."""
        seen = set()
        for p in en.occ:
            d = p[-1].reference
            if d is None or id(d) in seen:
                continue
            seen.add(id(d))
            mine = set(id(wr) for c in d.cables for wr in c.wires)
            for port in d.ports:
                for ip in port.pins:
                    if ip.wire is not None and id(ip.wire) not in mine:
                        return False
            for c in d.children:
                for op in c.pins.values():
                    if op.wire is not None and id(op.wire) not in mine:
                        return False
            for cab in d.cables:
                for wr in cab.wires:
                    for pin in wr.pins:
                        if kind_of(pin) == "ipin":
                            if pin.port is None or pin.port.definition is not d:
                                return False
                        elif pin.instance is None or pin.instance.parent is not d:
                            return False
        return True

    def recheck(self, w):
        n = self._netlist(w)
        try:
            en = Enum(n)
        except OverflowError:
            return
        for res in w.held_hrefs:
            for h in res:
                path = chain(h)
                top = path[0]
                anchored = (netlist_of_top(top) is not None and netlist_of_top(top).top_instance is top
                            and netlist_of_top(top) is n)
                exp_valid = anchored and en.path_exists(path)
                w.count("probe.held_%s" % ("valid" if exp_valid else "invalid"))
                if bool(h.is_valid) != exp_valid:
                    raise Violation("C11.is_valid", kind_of(h.item),
                                    "is_valid=%s but the path %s" % (h.is_valid, "exists" if exp_valid else "is gone"))
                insts = tuple(x for x in path if kind_of(x) == "instance")
                cnt = sum(1 for p in en.occ if p[-1] is insts[-1])
                exp_unique = exp_valid and cnt == 1
                if bool(h.is_unique) != exp_unique:
                    raise Violation("C11.is_unique", kind_of(h.item),
                                    "is_unique=%s, valid=%s, paths ending in its instance=%d" % (
                                        h.is_unique, exp_valid, cnt))
                again = HRef.from_sequence(list(path))
                if again is not h or hash(again) != hash(h):
                    raise Violation("C11.flyweight_identity", "held", "held reference lost its identity")


    def bulk_held(self, w, pseed):
        """After the edits: held references (some of them stale by now) as the roots of ONE bulk query. The answer is the
        union of the answers for each root alone - a stale root contributes nothing, whatever stands next to it."""
        import random
        flat = []
        for res in w.held_hrefs:
            for h in res:
                if not any(h is x for x in flat):
                    flat.append(h)
        if len(flat) < 2:
            return
        n = self._netlist(w)
        try:
            en = Enum(n)
        except OverflowError:
            return
        if n.top_instance is None or netlist_of_top(n.top_instance) is not n or not self.pins_inside(en):
            # a wire still lists the pin of a child that was removed (or the like): what "the elaborated design" is, is
            # not defined for such a state (the same precondition as for the exact-set comparison of single queries)
            w.count("probe.bulk_held_skipped_not_contained")
            return
        pr = random.Random(pseed)
        for _ in range(3):
            sample = pr.sample(flat, min(len(flat), pr.randint(2, 5)))
            sib = [h for h in flat if h.parent is sample[0].parent and not any(h is x for x in sample)]
            pr.shuffle(sib)
            sample += sib[:3]
            pr.shuffle(sample)
            rec = pr.random() < 0.5
            for fname in sorted(FNS):
                fn = FNS[fname]
                try:
                    singles = [list(fn(h, recursive=rec)) for h in sample]
                except Exception:
                    continue   # a root kind this function does not take
                want = set(id(x) for sres in singles for x in sres)
                for order, tag in ((sample, "fwd"), (list(reversed(sample)), "rev")):
                    roots = list(order)     # the caller's own list: it is looked at, and used again, after the call
                    try:
                        got = list(fn(roots, recursive=rec))
                        again = list(fn(roots, recursive=rec)) if tag == "fwd" else got
                    except Exception as x:
                        raise Violation("C11.raised", "%s:bulk_held:%s" % (fname, type(x).__name__),
                                        "bulk query over held references raised %r" % (x,))
                    w.count("probe.bulk_held_queries")
                    if len(roots) != len(order) or any(a is not b for a, b in zip(roots, order)):
                        raise Violation("C11.roots_changed", "%s/bulk_held" % fname,
                                        "the query changed the list of roots the caller handed in (%d entries before, %d "
                                        "after)" % (len(order), len(roots)))
                    if set(id(x) for x in again) != set(id(x) for x in got):
                        raise Violation("C11.enum.missing", "%s/bulk_held_again" % fname,
                                        "the same query over the same list of roots answers %d references the first time "
                                        "and %d the second" % (len(got), len(again)))
                    if any(not h.is_valid for h in got):
                        raise Violation("C11.invalid_result", "%s/bulk_held" % fname,
                                        "a bulk query rooted at held references returns a reference that reports invalid")
                    ids = set(id(x) for x in got)
                    if ids != want:
                        raise Violation("C11.enum.%s" % ("extra" if ids - want else "missing"), "%s/bulk_held" % fname,
                                        "bulk answer has %d references, the union of the single answers %d" % (len(ids), len(want)))
                del singles


PROP = C11
