"""C13 - query filters mean what they say: exact, wildcard, regex and case options agree."""
import fnmatch
import re

from simkit.engine import Prop
from simkit.gen_hier import hier_config, Builder, ScriptGen
from simkit.oracles.elab import Elab
from simkit.violation import Violation
from simkit.world import kind_of, World
from simkit import oplang
from simkit.oplang import need
from checks.c11 import STUB, chain, expected_name

import spydrnet as sdn
from spydrnet.util.hierarchical_reference import HRef

REAL = ["spydrnet.util.get_* (all 13 query functions)", "spydrnet.util.patterns", "global_service.lookup",
        "namespace manager plugin (fast lookup)", "spydrnet.util.hierarchical_reference"]
S4 = ["INSIDE", "OUTSIDE", "BOTH", "ALL"]
S2 = ["INSIDE", "OUTSIDE"]
SPECS = {
    "netlists": (sdn.get_netlists, True, True, None, False),
    "libraries": (sdn.get_libraries, True, True, S2, True),
    "definitions": (sdn.get_definitions, True, True, S2, True),
    "instances": (sdn.get_instances, True, True, S2, True),
    "ports": (sdn.get_ports, True, True, None, False),
    "cables": (sdn.get_cables, True, True, S4, True),
    "pins": (sdn.get_pins, False, False, S4, False),
    "wires": (sdn.get_wires, False, False, S4, True),
    "hinstances": (sdn.get_hinstances, True, False, None, True),
    "hports": (sdn.get_hports, True, False, None, True),
    "hpins": (sdn.get_hpins, True, False, None, True),
    "hcables": (sdn.get_hcables, True, False, S4, True),
    "hwires": (sdn.get_hwires, True, False, S4, True),
}
KEYS = [".NAME", ".NAME", "EDIF.identifier", "k"]
NAME_POOL = ["a", "A", "ab", "aB", "Ab", "b", "B", "a1", "A1", "n", "a_b", "x.y"]


def has_wild(p):
    return "*" in p or "?" in p


def matches(value, p, is_case, is_re):
    if value is None:
        value = ""
    if is_re:
        try:
            return re.fullmatch(p, value, 0 if is_case else re.IGNORECASE) is not None
        except re.error:
            return False
    if is_case:
        if not has_wild(p):
            return value == p
        return fnmatch.fnmatchcase(value, p)
    return fnmatch.fnmatchcase(value.lower(), p.lower())


def rel_name(path, skip):
    """Hierarchical name of ``path`` relative to its first ``skip`` items (the query root)."""
    return expected_name((None,) + tuple(path[skip:]))


def ident(e):
    return id(e)


@oplang.op("fquery")
def _(w, e):
    root = e["root"]
    if root["r"] == "h":
        obj = need(w, root["h"])
    elif root["r"] == "occ":
        obj = HRef.from_sequence([need(w, h) for h in root["path"]])
    elif root["r"] == "opin":
        obj = need(w, root["i"]).pins[need(w, root["p"])]
    elif root["r"] == "mix":
        # one collection of roots of different kinds: plain elements and hierarchical references side by side
        obj = [need(w, m["h"]) if m["r"] == "h" else HRef.from_sequence([need(w, h) for h in m["path"]])
               for m in root["items"]]
    else:
        obj = [need(w, h) for h in root["hs"]]
    fn = SPECS[e["fn"]][0]
    if e.get("via") == "method" and not isinstance(obj, list):
        # the shortcut spelling  obj.get_x(...)  of  sdn.get_x(obj, ...)
        fn = (lambda f: (lambda o, *a, **k: getattr(o, f)(*a, **k)))(fn.__name__)
    base = {}
    if e.get("sel"):
        base["selection"] = getattr(sdn, e["sel"])
    if e.get("recursive"):
        base["recursive"] = True
    if e.get("key"):
        base["key"] = e["key"]
    w.last_fq = (fn, obj, base, list(fn(obj, **base)))


class FGen:
    def __init__(self, w, rng, cfg, b):
        self.w, self.r, self.cfg, self.b = w, rng, cfg, b
        self.left = cfg["n_queries"]

    def __call__(self):
        if self.left <= 0:
            return None
        w, r = self.w, self.r
        if r.random() < self.cfg.get("edit_rate", 0.0):
            # an edit between two queries: an element gets a new name or identifier (a value another element
            # has, had, or a fresh one); what was indexed for the old value must not answer any more
            c = [h for h in w.order if kind_of(w.handles[h]) in ("library", "definition", "instance", "port", "cable")]
            x = r.random()
            if c and x < 0.3:
                # an element loses its identifier or name entry, or an element nothing is joined to leaves its parent:
                # whatever the scope had indexed for it must stop answering (it may come back under the same value)
                hd = w.handle_of
                if x < 0.12:
                    withkey = [(h, k) for h in c for k in ("EDIF.identifier", ".NAME") if k in w.handles[h]._data]
                    if withkey:
                        h, k = r.choice(withkey)
                        return {"op": r.choice(["data_del", "data_pop"]), "on": h, "key": k}
                loose = []
                for h in c:
                    o = w.handles[h]
                    ko = kind_of(o)
                    if ko == "port" and o.definition is not None and hd(o.definition) and all(
                            q.wire is None for q in o.pins) and all(
                            i.pins[q].wire is None for i in o.definition.references for q in o.pins if q in i.pins):
                        loose.append(("remove_port", hd(o.definition), h))
                    elif ko == "cable" and o.definition is not None and hd(o.definition) and all(
                            len(wr.pins) == 0 for wr in o.wires):
                        loose.append(("remove_cable", hd(o.definition), h))
                    elif ko == "instance" and o.parent is not None and hd(o.parent) and all(
                            q.wire is None for q in o.pins.values()) and o.reference is not None and \
                            len(o.reference.children) == 0:
                        loose.append(("remove_child", hd(o.parent), h))
                if loose:
                    op, on, xh = r.choice(loose)
                    return {"op": op, "on": on, "x": xh}
            if c:
                self.fresh = getattr(self, "fresh", 0) + 1
                v = r.choice(NAME_POOL + NAME_POOL + ["Fresh%d" % self.fresh, "fresh%d" % self.fresh])
                return {"op": "data_set", "on": r.choice(c), "key": r.choice([".NAME", "EDIF.identifier", "EDIF.identifier"]), "v": v}
        self.left -= 1
        name = r.choice(sorted(SPECS))
        fn, haspat, haskey, sels, hasrec = SPECS[name]
        x = r.random()
        if x < 0.15:
            root = {"r": "h", "h": self.b.netlist}
        elif x < 0.3:
            n = w.h(self.b.netlist)
            try:
                el = Elab(n)
            except OverflowError:
                return self()
            if not el.occ:
                return self()
            p = r.choice(el.occ)
            hs = [w.handle_of(i) for i in p]
            d = p[-1].reference
            if d is not None and r.random() < 0.4:
                # a reference to something INSIDE the occurrence: a port, a cable, one of their bits
                items = [(q,) for q in d.ports] + [(c,) for c in d.cables]
                items += [(q, pin) for q in d.ports for pin in q.pins] + [(c, wr) for c in d.cables for wr in c.wires]
                if items:
                    hs = hs + [w.handle_of(x) for x in r.choice(items)]
            if any(h is None for h in hs):
                return self()
            root = {"r": "occ", "path": hs}
        elif x < 0.34:
            insts = [h for h in w.order if kind_of(w.handles[h]) == "instance" and len(w.handles[h].pins)]
            if not insts:
                return self()
            ih = r.choice(insts)
            ph = w.handle_of(r.choice(list(w.handles[ih].pins.keys())))
            if ph is None:
                return self()
            root = {"r": "opin", "i": ih, "p": ph}
        elif x < 0.39 and name.startswith("h"):
            # the netlist next to references to things INSIDE some of its occurrences (ports, cables, their bits): what
            # one root reaches by its name search another reaches directly
            n = w.h(self.b.netlist)
            try:
                el = Elab(n)
            except OverflowError:
                return self()
            items = [{"r": "h", "h": self.b.netlist}]
            for p in r.sample(el.occ, min(len(el.occ), r.randint(1, 2))):
                d = p[-1].reference
                if d is None:
                    continue
                inner = [(q,) for q in d.ports] + [(c,) for c in d.cables]
                inner += [(q, pin) for q in d.ports for pin in q.pins] + [(c, wr) for c in d.cables for wr in c.wires]
                if inner:
                    hs = [w.handle_of(i) for i in p] + [w.handle_of(x) for x in r.choice(inner)]
                    if all(h is not None for h in hs):
                        items.append({"r": "occ", "path": hs})
            if len(items) < 2:
                return self()
            r.shuffle(items)
            root = {"r": "mix", "items": items}
        elif x < 0.42:
            kind = r.choice(["definition", "instance", "library", "port", "cable"])
            c = [h for h in w.order if kind_of(w.handles[h]) == kind]
            if len(c) < 2:
                return self()
            root = {"r": "list", "hs": r.sample(c, min(len(c), r.randint(2, 3)))}
        else:
            kind = r.choice(["library", "definition", "definition", "instance", "instance", "port", "cable",
                             "ipin", "wire", "netlist"])
            c = [h for h in w.order if kind_of(w.handles[h]) == kind]
            if not c:
                return self()
            root = {"r": "h", "h": r.choice(c)}
        ev = {"op": "fquery", "fn": name, "root": root}
        if sels:
            ev["sel"] = r.choice(sels)
        if hasrec and r.random() < 0.5:
            ev["recursive"] = True
        if haskey:
            ev["key"] = r.choice(KEYS)
        ev["pseed"] = r.randint(0, 10 ** 9)
        if root["r"] in ("h", "occ") and r.random() < 0.3:
            ev["via"] = "method"
        if root["r"] == "opin" and name in ("netlists",):
            pass
        return ev


class C13(Prop):
    id = "C13"
    engine = "hier"
    fit = "C"
    rule = ("one evaluation = one generated hierarchical design with colliding names, identifiers and a user "
            "key, under the DEFAULT or EDIF policy, followed by 20-60 sampled query shapes interleaved with edits "
            "(re-assigned, deleted or popped names and identifiers; unconnected ports, cables and leaf instances "
            "removed from their parents) (function, root kind "
            "incl. collections and hierarchical references, selection, recursive, key); for each shape the "
            "unfiltered result U is computed once and every derived pattern (exact, case-swapped, prefix*, "
            "single ?, escaped regex, is_case on/off, several patterns, filter callback) must return exactly "
            "the members of U whose value matches, without duplicates, independently of pattern order and of "
            "whether the namespace plugin (fast lookup) is registered; non-trivial = at least one shape with a "
            "non-empty U; distinct = distinct (event-kind multiset, final fingerprint) pairs")
    relevant_ops = {"fquery"}
    components_real = REAL
    components_stub = STUB + ["fast lookup registered / deregistered around queries (configuration fault F10)"]
    assumptions = ["value(e) is e[key] when present and '' otherwise (what every scan branch does)",
                   "for hierarchical queries the value is the reference's hierarchical name",
                   "an exact identifier under the EDIF policy may match case-insensitively (fast lookup) or "
                   "case-sensitively (name-map branches): both are accepted",
                   "the empty pattern is not generated"]
    runs = {"quick": 3500, "thorough": 60000}

    def configure(self, rng, tier):
        cfg = hier_config(rng)
        cfg["steps"] = 10 ** 6
        cfg["depth"] = rng.choice([1, 2, 2, 3])
        cfg["name_style"] = "pool"
        cfg["name_pool"] = NAME_POOL
        cfg["unique_names"] = False
        cfg["unique_idents"] = False
        cfg["ident_rate"] = rng.choice([0.0, 0.4, 0.8])
        cfg["userkey_rate"] = rng.choice([0.0, 0.4])
        cfg["unnamed"] = rng.choice([0.0, 0.15])
        cfg["policy_start"] = rng.choice(["DEFAULT", "DEFAULT", "EDIF"])
        cfg["n_queries"] = rng.choice([20, 40, 60])
        cfg["cache_toggle"] = rng.random() < 0.7
        cfg["edit_rate"] = rng.choice([0.0, 0.0, 0.1, 0.3])
        # cells of one name in two libraries (a wrapper work.buf around prims.buf): a name is unique per library only
        cfg["twin_defs"] = rng.random() < 0.35
        if cfg["twin_defs"]:
            cfg["n_libs"] = max(2, cfg["n_libs"])
        return cfg

    def make_gen(self, w, rng, cfg):
        b = Builder(rng, cfg)
        ev = b.build()
        return ScriptGen(ev, FGen(w, rng, cfg, b))

    def start(self, w, cfg):
        w.last_fq = None
        self.cfg = cfg

    # ---------------------------------------------------------------------------------
    def after(self, w, ev, outcome, pre):
        if ev["op"] != "fquery":
            return
        name = ev["fn"]
        disc = name
        if outcome != "ok":
            if outcome == "refused:TypeError":
                return  # unsupported root kind for this function: documented refusal
            raise Violation("C13.raised", "%s:%s" % (name, outcome.split(":", 1)[-1]), "unfiltered query raised")
        fn, obj, base, U = w.last_fq
        fn, haspat, haskey, sels, hasrec = SPECS[name]
        hier = name.startswith("h")
        key = base.get("key", ".NAME")

        # hierarchical queries match names relative to the root for what their name search finds below a
        # netlist or a reference to an instance (default INSIDE selection); everything reached another way
        # is matched by its full hierarchical name
        skip = None
        if hier and isinstance(obj, HRef) and base.get("selection", sdn.INSIDE) == sdn.INSIDE \
                and kind_of(obj.item) == "instance":
            skip = len(chain(obj))

        def value(e):
            if hier:
                if skip is not None:
                    return rel_name(chain(e), skip)
                return e.name
            return e[key] if key in e else ""

        def run(**kw):
            args = dict(base)
            args.update(kw)
            o = list(obj) if isinstance(obj, list) else obj
            try:
                return list(fn(o, **args))
            except Exception as x:
                raise Violation("C13.raised", "%s:%s" % (name, type(x).__name__), "query with %r raised %r" % (kw, x))

        def uniq(res, what):
            ids = [ident(e) for e in res]
            if len(ids) != len(set(ids)):
                raise Violation("C13.duplicate", "%s/%s" % (disc, what), "an element is returned twice")
            return set(ids)

        Uset = uniq(U, "unfiltered")
        if U:
            w.count("probe.nonempty_unfiltered")
        if haskey and "key" in base:
            # without a pattern, an element that CARRIES the key (a string value) matches whatever that value is: every
            # such element of the result for the default key is in the result for this key as well (elements without
            # the key are left to the function: some report them with the value '', some leave them out)
            o = list(obj) if isinstance(obj, list) else obj
            try:
                other = list(fn(o, **dict((k, v) for k, v in base.items() if k != "key")))
            except Exception as x:
                raise Violation("C13.raised", "%s:%s" % (name, type(x).__name__), "query without key raised %r" % (x,))
            lost = [e for e in other if key in e and isinstance(e[key], str) and ident(e) not in Uset]
            if lost:
                raise Violation("C13.unfiltered_drops_keyed_element", "%s/%s" % (disc, key),
                                "without a pattern, key=%r leaves out %d elements that carry the key (value %r ...)" % (
                                    key, len(lost), lost[0][key]))
        byid = dict((ident(e), e) for e in U)
        # filter callback composes (all functions)
        import random
        pr = random.Random(ev.get("pseed", 0))
        keep = set(i for i in Uset if pr.random() < 0.5)
        # the callback answers like user callbacks do: any truthy / falsy value (re.match objects, counts, strings, None)
        truthy, falsy = pr.choice([(True, False), (1, 0), ("x", ""), (object(), None), (True, None), (7, False)])
        res = run(filter=lambda e: truthy if ident(e) in keep else falsy)
        if uniq(res, "filter") != keep:
            raise Violation("C13.filter_callback", disc, "filter= does not compose with the unfiltered result")
        # cache on/off (all functions): with the namespace plugin deregistered the same query gives the same set
        if self.cfg.get("cache_toggle"):
            World.lookup_cache(False)
            try:
                res = run()
            finally:
                World.lookup_cache(True)
            if uniq(res, "nocache") != Uset:
                raise Violation("C13.cache_dependent", disc + "/unfiltered", "result depends on the fast lookup")
        if not haspat:
            return
        vals = sorted(set(v for v in (value(e) for e in U) if isinstance(v, str) and v != ""))
        if not vals:
            return
        pats = []
        for v in pr.sample(vals, min(len(vals), 3)):
            pats.append((v, True, False, "exact"))
            if v.swapcase() != v:
                pats.append((v.swapcase(), True, False, "exact_swapped"))
                pats.append((v.swapcase(), False, False, "nocase_exact"))
                pats.append((v.swapcase()[:1] + "*", False, False, "nocase_wild"))
            pats.append((v[:1] + "*", True, False, "prefix"))
            if len(v) > 1:
                pats.append((v[:-1] + "?", True, False, "qmark"))
            pats.append((re.escape(v), True, True, "regex"))
            pats.append((re.escape(v.swapcase()), False, True, "regex_nocase"))
        pats.append(("zzz_nomatch", True, False, "nomatch"))
        pats.append(("a[", True, True, "broken_regex"))      # not a regular expression: matches nothing, raises nothing
        for p, is_case, is_re, kind in pats:
            kw = {"patterns": p}
            if not is_case:
                kw["is_case"] = False
            if is_re:
                kw["is_re"] = True
            got = uniq(run(**kw), kind)
            self.compare(w, got, byid, value, [p], is_case, is_re, key, hier, "%s/%s" % (disc, kind))
            if self.cfg.get("cache_toggle") and kind in ("exact", "prefix", "exact_swapped"):
                World.lookup_cache(False)
                try:
                    got2 = uniq(run(**kw), kind + "_nocache")
                finally:
                    World.lookup_cache(True)
                self.compare(w, got2, byid, value, [p], is_case, is_re, key, hier, "%s/%s_nocache" % (disc, kind))
        # several patterns: union, in any order
        if len(vals) >= 1:
            # (with a single value in U - e.g. the one netlist every root resolves to - the two-exact combination
            # uses a second name that matches nothing)
            a, b = pr.sample(vals, 2) if len(vals) >= 2 else (vals[0], vals[0] + "_absent")
            for combo, kind in (([a, b], "two_exact"), ([a, a[:1] + "*"], "exact_plus_overlapping_wild"),
                                ([a, a], "repeated")):
                g1 = uniq(run(patterns=list(combo)), kind)
                g2 = uniq(run(patterns=list(reversed(combo))), kind + "_rev")
                if g1 != g2 and not self._ci_slack(key, hier):
                    raise Violation("C13.order_dependent", "%s/%s" % (disc, kind), "result depends on pattern order")
                self.compare(w, g1, byid, value, combo, True, False, key, hier, "%s/%s" % (disc, kind))
        w.count("probe.shapes_checked")

    @staticmethod
    def _parent_policy(e):
        """Naming policy of the scope an element is looked up in (the '.NS' entry of its parent)."""
        k = kind_of(e)
        parent = (e.netlist if k == "library" else e.library if k == "definition" else
                  e.definition if k in ("port", "cable") else e.parent if k == "instance" else None)
        return parent.get(".NS") if parent is not None else None

    def _ci_slack(self, key, hier):
        return (not hier) and key == "EDIF.identifier"

    def compare(self, w, got, byid, value, pats, is_case, is_re, key, hier, disc):
        lower = set()
        upper = set()
        for i, e in byid.items():
            v = value(e)
            if any(matches(v, p, is_case, is_re) for p in pats):
                lower.add(i)
                upper.add(i)
            elif self._ci_slack(key, hier) and self._parent_policy(e) == "EDIF" and any(
                    matches(v, p, False, is_re) for p in pats if not has_wild(p)):
                upper.add(i)  # an exact identifier may be matched case-insensitively under the EDIF policy
        if got - set(byid):
            raise Violation("C13.filter_mismatch.not_in_unfiltered", disc,
                            "the filtered query returns an element the unfiltered one does not")
        if got - upper:
            raise Violation("C13.filter_mismatch.extra", disc, "%d returned elements do not match the pattern %r" % (
                len(got - upper), pats))
        if lower - got:
            missing = lower - got
            # exact pattern, several elements of one scope share the value, one of them is returned
            def scope(e):
                k = kind_of(e)
                if k is None:
                    return getattr(e, "parent", None)       # a hierarchical reference: the reference above it
                return (e.netlist if k == "library" else e.library if k == "definition" else
                        e.definition if k in ("port", "cable") else e.parent if k == "instance" else None)
            same_scope = all(any(scope(byid[m]) is scope(byid[g]) and scope(byid[m]) is not None for g in got if g in byid)
                             for m in missing)
            if not is_re and is_case and all(not has_wild(p) for p in pats) and got and same_scope:
                sig = "C13.exact_returns_first_of_duplicates@nonunique_value"
                if sig in self.known:
                    w.count("known." + sig)
                    return
                raise Violation("C13.exact_returns_first_of_duplicates", "nonunique_value",
                                "%s: pattern %r matches %d elements, %d returned" % (disc, pats, len(lower), len(got)))
            raise Violation("C13.filter_mismatch.missing", disc, "%d matching elements are not returned for %r" % (
                len(missing), pats))


PROP = C13
