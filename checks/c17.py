"""C17 - EDIF export gives every object a legal, case-insensitively unique identifier."""
from simkit.engine import Prop
from simkit.gen_hier import ScriptGen
from simkit.oracles.naming import edif_identifier_legal
from simkit.violation import Violation
from simkit.world import kind_of

REAL = ["spydrnet.composers.edif.edifify_names", "spydrnet.composers.edif.composer (_add_rename_property, emission)",
        "spydrnet.parsers.edif (re-read)", "namespace manager plugin (EDIF policy on read)"]
STUB = ["file system (SimFS)", "read chunking", "wall clock", "identity hash of IR objects"]

ALPHA = "abABzZ019_-[]/\\ $&.:()+*#@!~<>=,;'%" + "\u00e9\u00b5"   # (two printable characters outside ASCII as well)
BASES = ["a", "A", "ab", "AB", "Ab", "data", "DATA", "net", "x_sdn_1_", "a_sdn_1_", "A_sdn_2_", "1", "_", "&a", "a-b",
         "a b", "a_b", "a.b", "a%b", "50%", "a/b", "a[0]", "a[1]", "A[0]", "\\a ", "$1", "abc", "aBc", "ABC",
         "caf\u00e9", "\u00b5s"]


def adversarial(rng):
    x = rng.random()
    if x < 0.45:
        s = rng.choice(BASES)
    elif x < 0.8:
        s = "".join(rng.choice(ALPHA) for _ in range(rng.randint(1, 6)))
    elif x < 0.9:
        s = rng.choice(BASES) + rng.choice(["_sdn_1_", "_sdn_2_", "_SDN_1_", "_sdn_10_"])
    else:
        s = (rng.choice(BASES) * 300)[:rng.choice([254, 255, 256, 257, 300])]
    if rng.random() < 0.2:
        s = s.swapcase()
    if rng.random() < 0.1:
        s = s + rng.choice(ALPHA)
    return s or "a"


class C17(Prop):
    id = "C17"
    engine = "disk"
    fit = "B"
    rule = ("one evaluation = one small netlist whose libraries, cells, ports, nets and instances carry sibling "
            "names drawn from an adversarial alphabet (both cases, digits, _ - [ ] / \\ space $ & . and more, "
            "lengths 1-300, x_sdn_N_ shaped names, names that are equal after sanitising or differ only in "
            "case), composed to the simulated disk and read back; every assigned identifier is checked against an "
            "independent EDIF grammar, siblings' identifiers must differ ignoring case, and the re-read names "
            "must be the originals; non-trivial = some scope holds two siblings whose names collide after "
            "sanitising or case folding; distinct = distinct (event-kind multiset, final fingerprint) pairs")
    relevant_ops = {"compose"}
    components_real = REAL
    components_stub = STUB
    assumptions = ["names contain no double quote or newline (EDIF string syntax)",
                   "cable names of the form stem[digits] or stem_digits_ are how EDIF files spell one bit of bus "
                   "'stem' (the reader reassembles them); they are not generated as names of whole cables",
                   "the netlist is built under the DEFAULT policy, so sibling names are unique as written"]
    runs = {"quick": 12000, "thorough": 300000}

    def configure(self, rng, tier):
        return {"steps": 10 ** 6, "n_sib": rng.choice([2, 3, 4, 6, 6, 11, 13]),
                "family": rng.choice(["mixed", "mixed", "mixed", "at_limit"]), "chunk_law": rng.choice(["whole", "1..64", "1..7"]),
                "kinds": rng.choice([["port"], ["cable"], ["instance"], ["port", "cable", "instance"],
                                     ["definition"], ["library"], ["port", "cable", "instance", "definition", "library"]]),
                "policy_start": rng.choice(["DEFAULT", "DEFAULT", "EDIF"]),
                "second_write": rng.random() < 0.3}

    def make_gen(self, w, rng, cfg):
        r = rng
        ev = []

        def emit(e):
            e["i"] = len(ev)
            ev.append(e)
            return "e%d.0" % e["i"]

        def names(n, adv):
            out = []
            if adv and cfg.get("family") == "at_limit":
                # siblings whose identifiers all land on the 255 character limit and collide there: names that
                # share their first 255 characters, names of exactly 255 that differ in case only, and names that
                # already end in a conflict counter about to gain a digit
                ch = r.choice("aAb")
                for k in range(n):
                    x = r.random()
                    if x < 0.6:
                        nm = ch * r.choice([255, 255, 256, 260]) + "%d" % k
                    elif x < 0.8:
                        nm = (ch.swapcase() if k % 2 else ch) * (255 - 7) + r.choice(["_sdn_9_", "_sdn_99_"][:1 + (k > 3)])
                        nm = nm if nm not in out else nm[1:] + "q"
                    else:
                        nm = adversarial(r)
                    out.append(nm)
                return out
            for k in range(n):
                out.append(adversarial(r) if adv else "n%d" % k)
            return out
        kinds = cfg["kinds"]
        net = emit({"op": "netlist_new", "name": adversarial(r) if r.random() < 0.3 else "design"})
        nlib = cfg["n_sib"] if "library" in kinds else 1
        libs = [emit({"op": "create_library", "on": net, "name": nm}) for nm in names(nlib, "library" in kinds)]
        lib = libs[0]
        leaf = emit({"op": "create_definition", "on": lib, "name": "LEAF"})
        emit({"op": "create_port", "on": leaf, "name": "I", "pins": 1, "direction": "in"})
        ndef = cfg["n_sib"] if "definition" in kinds else 1
        defs = [emit({"op": "create_definition", "on": r.choice(libs) if "library" not in kinds else lib, "name": nm})
                for nm in names(ndef, "definition" in kinds)]
        top = defs[0]
        for nm in names(cfg["n_sib"] if "port" in kinds else 1, "port" in kinds):
            emit({"op": "create_port", "on": top, "name": nm, "pins": r.choice([1, 1, 2]),
                  "direction": r.choice(["in", "out"])})
        import re
        for nm in names(cfg["n_sib"] if "cable" in kinds else 1, "cable" in kinds):
            if re.search(r"\[\d+\]$", nm) or re.search(r"_\d+_$", nm):
                nm += "x"  # 'stem[3]' / 'stem_3_' is how EDIF spells bit 3 of bus 'stem': not a scalar net name
            e = {"op": "create_cable", "on": top, "name": nm, "wires": r.choice([1, 1, 2, 4])}
            if e["wires"] > 1 or r.random() < 0.1:
                e["is_scalar"] = False
                lo = r.choice([0, 0, 0, 1, 8, 98, 1000])
                if lo:
                    e["lower_index"] = lo   # bit identifiers <id>_<index>_ get longer suffixes than the width suggests
            emit(e)
        for nm in names(cfg["n_sib"] if "instance" in kinds else 1, "instance" in kinds):
            emit({"op": "create_child", "on": top, "name": nm, "ref": leaf})
        t = emit({"op": "set_top", "on": net, "x": top})
        emit({"op": "set_name", "on": t, "v": adversarial(r) if r.random() < 0.3 else "topinst"})
        emit({"op": "fs_config", "chunk_law": cfg["chunk_law"], "seed": 1})
        emit({"op": "compose", "on": net, "path": "sim://a.edf"})
        emit({"op": "parse", "path": "sim://a.edf"})
        self.net_h = net
        if not cfg.get("second_write"):
            return ScriptGen(ev)
        # after the first export every element carries an identifier: rename one, add a sibling whose NAME is
        # that element's identifier (or a case variant of it), and export again
        state = {"phase": 0}
        n_script = len(ev)

        def more():
            n = w.h(net)
            if n is None:
                return None
            if state["phase"] == 0:
                state["phase"] = 1
                d = w.h(top)
                kind = r.choice(["port", "cable", "instance", "port", "cable", "instance", "library", "definition"])
                if kind in ("library", "definition"):
                    # a library or a cell is renamed to a letter-case variant of its own name after the first export:
                    # the identifier it keeps differs from the new name in case only, and the second file must still
                    # record the name
                    elems = list(n.libraries) if kind == "library" else [x for lib in n.libraries for x in lib.definitions]
                    elems = [x for x in elems if "EDIF.identifier" in x and w.handle_of(x) and isinstance(x.name, str)
                             and x.name.swapcase() != x.name]
                    if not elems:
                        return more()
                    x = r.choice(elems)
                    state["phase"] = 2
                    return {"op": "set_name", "on": w.handle_of(x),
                            "v": r.choice([v for v in (x.name.upper(), x.name.lower(), x.name.swapcase()) if v != x.name])}
                sibs = [x for x in {"port": d.ports, "cable": d.cables, "instance": d.children}[kind]
                        if "EDIF.identifier" in x and w.handle_of(x)] if d is not None else []
                sibs = [x for x in sibs if not (kind == "cable" and (x.is_array or len(x.wires) > 1))]
                if not sibs:
                    return more()
                x = r.choice(sibs)
                state["kind"], state["ident"] = kind, x["EDIF.identifier"]
                if r.random() < 0.35 and isinstance(x.name, str):
                    # the element is REPLACED: taken out, and a new element with its name (or a case variant) is added
                    state["ident"] = x.name
                    return {"op": {"port": "remove_port", "cable": "remove_cable", "instance": "remove_child"}[kind],
                            "on": top, "x": w.handle_of(x)}
                if r.random() < 0.25 and isinstance(x.name, str) and x.name.swapcase() != x.name:
                    return {"op": "set_name", "on": w.handle_of(x), "v": x.name.swapcase()}     # (case-only rename)
                return {"op": "set_name", "on": w.handle_of(x), "v": "was_%d" % r.randint(0, 10 ** 6)}
            if state["phase"] == 1:
                state["phase"] = 2
                if "ident" not in state:
                    return more()
                nm = state["ident"] if r.random() < 0.6 else state["ident"].swapcase()
                if state["kind"] == "port":
                    return {"op": "create_port", "on": top, "name": nm, "pins": 1, "direction": "in"}
                if state["kind"] == "cable":
                    return {"op": "create_cable", "on": top, "name": nm, "wires": 1}
                return {"op": "create_child", "on": top, "name": nm, "ref": leaf}
            if state["phase"] == 2:
                state["phase"] = 3
                return {"op": "compose", "on": net, "path": "sim://b.edf"}
            if state["phase"] == 3:
                state["phase"] = 4
                return {"op": "parse", "path": "sim://b.edf"}
            return None
        return ScriptGen(ev, more)

    def start(self, w, cfg):
        self.scopes = None
        self.had_ident = set()
        self.skip_cables = False
        self.cable_info = {}

    @staticmethod
    def scopes_of(n):
        yield "library", list(n.libraries)
        for lib in n.libraries:
            yield "definition", list(lib.definitions)
            for d in lib.definitions:
                yield "port", list(d.ports)
                yield "cable", list(d.cables)
                yield "instance", list(d.children)

    def before(self, w, ev):
        if ev["op"] == "compose":
            n = w.h(ev["on"])
            if n is not None:
                self.had_ident = set(id(e) for kind, elems in self.scopes_of(n) for e in elems if "EDIF.identifier" in e)
        return None

    def after(self, w, ev, outcome, pre):
        if ev["op"] == "compose":
            n = w.h(ev["on"])
            if n is None:
                return
            if outcome != "ok":
                raise Violation("C17.compose_raised", outcome.split(":", 1)[-1], "compose raised %s" % outcome)
            self.scopes = []
            for kind, elems in self.scopes_of(n):
                seen = {}
                import re
                sanit = {}
                for e in elems:
                    ident = e.get("EDIF.identifier")
                    if not edif_identifier_legal(ident):
                        why = "too_long" if isinstance(ident, str) and len(ident) > 255 else (
                            "illegal_start" if isinstance(ident, str) and ident and not (
                                ident[0].isascii() and (ident[0].isalpha() or ident[0] == "&")) else "illegal_char")
                        raise Violation("C17.ident.%s" % why, kind, "name %r got identifier %r" % (
                            e.name[:40], (ident or "")[:60]))
                    low = ident.lower()
                    if low in seen:
                        raise Violation("C17.ident.collision_ci", kind, "%r and %r both got %r / %r" % (
                            seen[low].name[:30], e.name[:30], seen[low]["EDIF.identifier"][:40], ident[:40]))
                    seen[low] = e
                    if (ident != e.name) != bool(e.get("EDIF.rename", False)) and ident != e.name \
                            and id(e) not in self.had_ident:
                        # (an element that carried its identifier before this export - from an earlier export or
                        # from the reader - and was renamed since is written as a rename by comparing name and
                        # identifier; the flag in its data is not what the file depends on)
                        raise Violation("C17.ident.rename_flag", kind, "identifier differs from the name but no rename is recorded")
                    k = re.sub(r"[^0-9a-z]", "_", e.name.lower())
                    if k in sanit and sanit[k] != e.name:
                        w.count("probe.sanitised_collision")
                    sanit[k] = e.name
                if kind == "cable":
                    # the bits of a bus are written as nets <identifier>_<index>_ : they are siblings too
                    bitids = {}
                    for e in elems:
                        if e.is_array or len(e.wires) > 1:
                            for k in range(len(e.wires)):
                                bitids[("%s_%d_" % (e["EDIF.identifier"], e.lower_index + k)).lower()] = e
                    for e in elems:
                        if not (e.is_array or len(e.wires) > 1) and e["EDIF.identifier"].lower() in bitids:
                            sig = "C17.ident.collision_with_bus_bit@cable"
                            if sig in self.known:
                                w.count("known." + sig)
                                self.skip_cables = True
                            else:
                                raise Violation("C17.ident.collision_with_bus_bit", "cable",
                                                "net %r gets identifier %r, which is also written for a bit of bus %r" % (
                                                    e.name[:30], e["EDIF.identifier"][:40],
                                                    bitids[e["EDIF.identifier"].lower()].name[:30]))
                self.scopes.append((kind, [e.name for e in elems]))
                if kind == "cable":
                    for e in elems:
                        self.cable_info[e.name] = (2 if e.is_array else len(e.wires), e.get("EDIF.identifier"))
        elif ev["op"] == "parse" and self.scopes is not None:
            if outcome != "ok":
                # (what the reader expected is part of the signature, so that minimising keeps the cause)
                why = " ".join(str(getattr(w, "last_error", "")).split()[:4])
                raise Violation("C17.reread.rejected", "%s:%s" % (outcome.split(":", 1)[-1], why),
                                "the reader rejected the exported file: %s (%s)" % (outcome, getattr(w, "last_error", "")))
            n = w.h("e%d.0" % ev["i"])
            import re
            got = list(self.scopes_of(n))
            want = self.scopes
            # libraries and definitions may be reordered by the writer: compare as sets; the rest in order
            gl = sorted(x.name for x in n.libraries)
            wl = sorted(want[0][1])
            if gl != wl:
                raise Violation("C17.reread.name_lost", "library", "libraries %r vs %r" % (gl[:3], wl[:3]))
            wd = sorted(nm for k, names in want if k == "definition" for nm in names)
            gd = sorted(d.name for lib in n.libraries for d in lib.definitions)
            if gd != wd:
                raise Violation("C17.reread.name_lost", "definition", "cells %r vs %r" % (gd[:4], wd[:4]))
            wmap = {}
            it = iter(want)
            cur = None
            for k, names in want:
                if k == "definition":
                    continue
            # per definition, keyed by definition name
            by_def = {}
            idx = 0
            flat = [x for x in want]
            pos = 1
            for lib_i in range(len(want[0][1])):
                defs = flat[pos][1]
                pos += 1
                for dn in defs:
                    by_def[dn] = {"port": flat[pos][1], "cable": flat[pos + 1][1], "instance": flat[pos + 2][1]}
                    pos += 3
            for lib in n.libraries:
                for d in lib.definitions:
                    exp = by_def[d.name]
                    if [p.name for p in d.ports] != exp["port"]:
                        raise Violation("C17.reread.name_lost", "port", "ports %r vs %r" % (
                            [p.name for p in d.ports][:3], exp["port"][:3]))
                    if [i.name for i in d.children] != exp["instance"]:
                        raise Violation("C17.reread.name_lost", "instance", "instances %r vs %r" % (
                            [i.name for i in d.children][:3], exp["instance"][:3]))
                    if self.skip_cables:
                        continue
                    plain = [c for c in exp["cable"] if not re.search(r"\[\d+\]$", c)]
                    gotc = [c.name for c in d.cables]
                    missing = [c for c in plain if c not in gotc]
                    for m in missing:
                        width, ident = self.cable_info.get(m, (1, ""))
                        if width > 1 and ident.startswith("&_"):
                            sig = "C17.reread.bus_not_reassembled@amp_underscore_identifier"
                            if sig in self.known:
                                w.count("known." + sig)
                                continue
                            raise Violation("C17.reread.bus_not_reassembled", "amp_underscore_identifier",
                                            "bus cable %r (identifier %r) comes back as separate one-bit cables %r" % (
                                                m[:30], ident[:30], gotc[:4]))
                        raise Violation("C17.reread.name_lost", "cable", "cable names %r lost (got %r)" % (
                            missing[:3], gotc[:4]))
            w.count("probe.reread_checked")


PROP = C17
