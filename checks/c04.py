"""C04 - structural Verilog write-then-read returns the same netlist."""
from simkit.engine import Prop
from simkit import design_shrink
from simkit.gen_hier import ScriptGen
from simkit import corpus, textgen_verilog
from simkit.model import scan
from simkit.oracles.links import check_links
from simkit.oracles.mirror import check_mirror
from simkit.violation import Violation
from checks.c06 import extract

REAL = ["spydrnet.composers.verilog", "spydrnet.parsers.verilog", "spydrnet.uniquify / flatten / clone (optional "
        "transformations before writing)", "spydrnet.ir.*"]
STUB = ["file system (SimFS)", "read chunking", "process restart between write and read", "identity hash of IR objects"]


def plain(name):
    r"""In Verilog \abc (escaped) and abc are the same identifier; spydrnet keeps the backslash in the name."""
    return name[1:] if isinstance(name, str) and name.startswith("\\") else name


def _plain_ep(ep):
    if ep[0] == "port":
        return ("port", plain(ep[1]), ep[2])
    return ("inst", plain(ep[1]), plain(ep[2]), ep[3])


def normalise(ex):
    """Make two extractions comparable: assign instances are identified by what they join, not by their number,
    and names are compared modulo Verilog identifier escaping."""
    ex = {"modules": dict((plain(k), {
        "ports": [(plain(p[0]),) + tuple(p[1:]) for p in m["ports"]],
        "cables": dict((plain(c), v) for c, v in m["cables"].items()),
        "conn": dict(((plain(b[0]), b[1]), frozenset(_plain_ep(e) for e in eps)) for b, eps in m["conn"].items()),
        "insts": dict((plain(i), (plain(v[0]), v[1], v[2])) for i, v in m["insts"].items()),
        "params": m["params"], "attrs": m["attrs"]}) for k, m in ex["modules"].items()),
        "prims": [plain(p) for p in ex["prims"]], "top": plain(ex["top"])}
    out = {}
    for name, m in ex["modules"].items():
        sig = {}
        assigns = dict((i, v[0]) for i, v in m["insts"].items()
                       if isinstance(v[0], str) and v[0].startswith("SDN_VERILOG_ASSIGNMENT_"))
        for bit, eps in m["conn"].items():
            for ep in eps:
                if ep[0] == "inst" and ep[1] in assigns:
                    sig.setdefault(ep[1], set()).add((bit, ep[2], ep[3]))
        ranks = dict((k, "assign#%d" % i) for i, (k, _) in enumerate(
            sorted(sig.items(), key=lambda kv: (assigns[kv[0]], sorted(kv[1], key=repr)))))
        conn = {}
        for bit, eps in m["conn"].items():
            conn[bit] = frozenset((ep[0], ranks.get(ep[1], ep[1])) + tuple(ep[2:]) if ep[0] == "inst" else ep
                                  for ep in eps)
        insts = {}
        for iname, v in m["insts"].items():
            if iname in assigns:
                key = ranks.get(iname, "assign-unconnected:" + assigns[iname])
                insts[key] = (v[0], {}, {})
            else:
                insts[iname] = v
        out[name] = {"ports": m["ports"], "cables": m["cables"], "conn": conn, "insts": insts,
                     "params": m["params"], "attrs": m["attrs"]}
    return {"modules": out, "prims": sorted(ex["prims"]), "top": ex["top"]}


class C04(Prop):
    id = "C04"
    engine = "textgen+disk"
    fit = "B"
    rule = ("one evaluation = one netlist obtained by parsing generated structural Verilog (or a bundled .v "
            "example), optionally transformed by uniquify / flatten / clone, written as Verilog to the simulated "
            "disk with seeded options, optionally followed by a process restart, and parsed again; modules, ports "
            "(direction, width, base), cables, instances (module, parameters, attributes) and the bit-level "
            "partition of endpoints per module are compared before and after (assign instances are identified by "
            "the bits they join); non-trivial = the netlist has at least one instance connection; distinct = "
            "distinct (event-kind multiset, final fingerprint) pairs")
    relevant_ops = {"compose", "parse"}
    components_real = REAL
    components_stub = STUB
    assumptions = ["primitive definitions are compared by name only (the writer may omit black boxes)",
                   "the netlist written is the one the reader produced, possibly transformed; the reader's own "
                   "faithfulness is C06's business"]
    runs = {"quick": 6000, "thorough": 150000}

    def configure(self, rng, tier):
        r = rng
        cfg = {"steps": 10 ** 6}
        cfg["source"] = "gen" if r.random() < 0.85 else "example"
        if cfg["source"] == "example":
            cfg["example"] = r.choice(corpus.names("v", 12000 if tier == "quick" else 70000))
        cfg["chunk_law"] = r.choice(["whole", "32768", "1..64", "1..7"])
        cfg["gen"] = {"depth": r.choice([1, 2, 2, 3]), "max_mods": r.choice([1, 2]), "max_ports": r.choice([2, 4]),
                      "max_wires": r.choice([1, 3, 5]), "max_insts": r.choice([1, 3, 5]), "max_prims": r.choice([1, 3]),
                      "order": r.choice(["bottom_up", "top_down", "shuffled"]), "positional_rate": r.choice([0.0, 0.3])}
        cfg["render"] = {"ws": "plain", "comment_rate": 0.0, "wire_kw": "wire", "split_attrs": r.random() < 0.5}
        cfg["transforms"] = r.choice([[], [], ["uniquify"], ["clone"], ["uniquify", "flatten"], ["clone", "uniquify"]])
        opts = {}
        if r.random() < 0.5:
            opts["write_blackbox"] = r.choice([True, False])
        if r.random() < 0.25:
            opts["defparam"] = True
        cfg["opts"] = opts
        cfg["restart"] = r.random() < 0.3
        cfg["twice"] = r.choice([None, None, "plain", "uniquify"]) if not cfg["restart"] else None
        return cfg

    def make_gen(self, w, rng, cfg):
        ev = [{"op": "fs_config", "chunk_law": cfg["chunk_law"], "seed": cfg.get("hash_seed", 0) % (2 ** 31)}]
        if cfg["source"] == "example":
            ev.append({"op": "fs_put_example", "name": cfg["example"], "path": "sim://in.v"})
        else:
            d = textgen_verilog.gen_design(rng, cfg["gen"])
            rs = rng.getrandbits(32)
            ev.append({"op": "fs_put", "path": "sim://in.v", "text": design_shrink.render("v", d, rs, cfg["render"]),
                       "design": d, "fmt": "v", "render": cfg["render"], "render_seed": rs,
                       "aliased": any(p.get("alias") or p.get("alias_wide") or p.get("alias_bits") for m in d["modules"] for p in m["ports"])})
        ev.append({"op": "parse", "path": "sim://in.v", "tag": "source"})
        net = "e%d.0" % (len(ev) - 1)
        for t in cfg["transforms"]:
            if t == "clone":
                ev.append({"op": "clone", "on": net, "tag": "transform"})
                net = "e%d.0" % (len(ev) - 1)
            else:
                ev.append({"op": t, "on": net, "tag": "transform"})
        ev.append({"op": "compose", "on": net, "path": "sim://out.v", "opts": cfg["opts"], "tag": "write"})
        if cfg["restart"]:
            ev.append({"op": "restart"})
        ev.append({"op": "parse", "path": "sim://out.v", "tag": "reread"})
        if cfg.get("twice"):
            # the same netlist object written a second time in the same process (after one more transformation in
            # some runs): whatever a writer keeps between two calls must not matter
            if cfg["twice"] == "uniquify":
                ev.append({"op": "uniquify", "on": net, "tag": "transform"})
            ev.append({"op": "compose", "on": net, "path": "sim://out2.v", "opts": cfg["opts"], "tag": "write"})
            ev.append({"op": "parse", "path": "sim://out2.v", "tag": "reread"})
        return ScriptGen(ev)

    def start(self, w, cfg):
        self.before_form = None
        self.aliased = False
        self.stop = False
        self.cfg = cfg

    def after(self, w, ev, outcome, pre):
        tag = ev.get("tag")
        if ev["op"] == "fs_put" and ev.get("aliased"):
            self.aliased = True
        if self.stop or tag is None:
            return
        how = "+".join(self.cfg["transforms"]) or "plain"
        if tag in ("source", "transform") and outcome != "ok":
            # the reader's or the transformation's own failure is another property's business
            self.stop = True
            w.count("probe.source_not_available")
            return
        if tag == "write":
            n = w.h(ev["on"])
            if n is None:
                self.stop = True
                return
            if outcome != "ok" and "multiple cables appear" in str(getattr(w, "last_error", "")):
                sig = "C04.writer_rejected@assign_spans_cables"
                if sig in self.known:
                    w.count("known." + sig)
                    self.stop = True
                    return
                raise Violation("C04.writer_rejected", "assign_spans_cables",
                                "an assign whose operand is spread over several cables (after %s) cannot be written: %s" % (
                                    how, getattr(w, "last_error", "")))
            if outcome != "ok":
                raise Violation("C04.writer_rejected", "%s:%s:%s" % (how, outcome.split(":", 1)[-1],
                                                                  str(getattr(w, "last_error", ""))[:30]),
                                "compose raised %s (%s)" % (outcome, getattr(w, "last_error", "")))
            # Verilog knows an escaped identifier by what follows the backslash: the names "\\y/y" (as the reader keeps
            # an escaped identifier) and "y/y" (as flatten joins instance "y" and net "y") are ONE identifier in the
            # text. A definition holding both cannot be expressed in Verilog: nothing is claimed for it.
            def vid(x):
                return (x.name or "").lstrip("\\").rstrip(" ")
            for lib in n.libraries:
                for d in lib.definitions:
                    for group in (list(d.cables), list(d.children)):
                        ids_ = [vid(x) for x in group if x.name is not None]
                        if len(ids_) != len(set(ids_)):
                            w.count("probe.not_expressible_same_identifier_skipped")
                            self.stop = True
                            return
            self.before_form = normalise(extract(n))
            if any(m["conn"] for m in self.before_form["modules"].values()):
                w.count("probe.netlist_with_connections")
        elif tag == "reread":
            if outcome != "ok":
                raise Violation("C04.reader_rejected", "%s:%s:%s" % (how, outcome.split(":", 1)[-1],
                                                                  str(getattr(w, "last_error", ""))[:30]),
                                "the reader raised %s (%s) on text the Verilog writer produced" % (
                                    outcome, getattr(w, "last_error", "")))
            n = w.h("e%d.0" % ev["i"])
            objs, _ = scan([n])
            check_links(objs, how, w.name_of, P="C04.wellformed")
            check_mirror(objs, how, w.name_of, P="C04.wellformed")
            a, b = self.before_form, normalise(extract(n))
            if a["top"] != b["top"]:
                raise Violation("C04.top", how, "top %r vs %r" % (a["top"], b["top"]))
            if set(a["modules"]) != set(b["modules"]):
                raise Violation("C04.modules", how, "modules differ: only before %r, only after %r" % (
                    sorted(set(a["modules"]) - set(b["modules"]))[:3], sorted(set(b["modules"]) - set(a["modules"]))[:3]))
            # modules that nothing instantiates any more (the husks flatten leaves behind) may have ports
            # without nets, which Verilog cannot express: only their ports are compared
            live = set([a["top"]])
            todo = [a["top"]]
            while todo:
                for v in a["modules"].get(todo.pop(), {"insts": {}})["insts"].values():
                    if v[0] in a["modules"] and v[0] not in live:
                        live.add(v[0])
                        todo.append(v[0])
            for name in a["modules"]:
                ma, mb = a["modules"][name], b["modules"][name]
                for field in (("ports", "cables", "insts", "conn", "params", "attrs") if name in live else ("ports",)):
                    if ma[field] != mb[field]:
                        detail = _first(ma[field], mb[field])
                        clause = {"ports": "ports", "cables": "cables", "insts": "instances", "conn": "partition",
                                  "params": "instances", "attrs": "instances"}[field]
                        raise Violation("C04." + clause, how, "module %s %s: %s" % (name, field, detail))
            used = set(v[0] for m in a["modules"].values() for v in m["insts"].values())
            lost = (set(a["prims"]) & used) - set(b["prims"])
            if lost:
                raise Violation("C04.modules", how + ":prims", "instantiated primitives lost: %r" % sorted(lost)[:3])
            w.count("probe.roundtrips_compared")
            if getattr(self, "aliased", False):
                w.count("probe.roundtrip_with_aliased_header_port")


def _first(a, b):
    if isinstance(a, dict):
        keys = sorted((k for k in set(a) | set(b) if a.get(k) != b.get(k)), key=repr)
        k = keys[0]
        va, vb = a.get(k), b.get(k)
        if isinstance(va, frozenset) and isinstance(vb, frozenset):
            return "%r: lost %r, gained %r" % (k, sorted(va - vb, key=repr)[:2], sorted(vb - va, key=repr)[:2])
        return "%r: %r vs %r" % (k, va, vb)
    return "%r vs %r" % (a, b)


PROP = C04
