"""C10 - sibling names stay unique and exact-name lookup always agrees with a scan."""
from simkit import oplang
from simkit.engine import Prop
from simkit.gen_iredit import swarm_config, NAMES_COLLIDE
from simkit.model import scan
from simkit.oracles.naming import SCOPES, KEYS, edif_identifier_legal
from simkit.violation import Violation
from simkit.world import World, kind_of
from checks.c01 import REAL, STUB

CHILD_ACC = {"library": ("netlist", "libraries"), "definition": ("library", "definitions"),
             "port": ("definition", "ports"), "cable": ("definition", "cables"),
             "instance": ("parent", "children")}
ADD_OPS = {"add_library": "library", "add_definition": "definition", "add_port": "port", "add_cable": "cable",
           "add_child": "instance"}
CREATE_OPS = {"create_library": "library", "create_definition": "definition", "create_port": "port",
              "create_cable": "cable", "create_child": "instance"}
NEW_OPS = {"netlist_new", "library_new", "definition_new", "port_new", "cable_new", "instance_new"}


def policy_of(o):
    return o.get(".NS") if o is not None else None


def scope_policy(e):
    """The naming policy an element lives under: that of the tree it belongs to (its outermost ancestor), which is what
    decides the legal form of its identifier - not whatever '.NS' entry the element itself happens to carry."""
    seen = 0
    while seen < 8:
        k = kind_of(e)
        parent = (e.netlist if k == "library" else e.library if k == "definition" else
                  e.definition if k in ("port", "cable") else e.parent if k == "instance" else None)
        if parent is None:
            return policy_of(e)
        e = parent
        seen += 1
    return policy_of(e)


def same(key, a, b, ns):
    if not isinstance(a, str) or not isinstance(b, str):
        return a == b
    if key == "EDIF.identifier" and ns == "EDIF":
        return a.lower() == b.lower()
    return a == b


def scan_lookup(parent, acc, key, value):
    ns = policy_of(parent)
    return [c for c in getattr(parent, acc) if key in c and same(key, c[key], value, ns)]


def conflict_in_scope(parent, acc, elem, key, value):
    """Would giving ``elem`` the value under ``key`` duplicate a sibling of its kind in ``parent``?"""
    ns = policy_of(parent)
    if ns not in ("DEFAULT", "EDIF"):
        return False
    if key == "EDIF.identifier" and ns != "EDIF":
        return False
    for c in getattr(parent, acc):
        if c is not elem and key in c and same(key, c[key], value, ns):
            return True
    return False


def subtree_compliant(elem, target):
    """Independent reading of 'compliant with the target policy' for an element and all below it."""
    def kids(o):
        k = kind_of(o)
        if k == "netlist":
            return [("library", list(o.libraries))]
        if k == "library":
            return [("definition", list(o.definitions))]
        if k == "definition":
            return [("port", list(o.ports)), ("cable", list(o.cables)), ("instance", list(o.children))]
        return []
    stack = [elem]
    while stack:
        o = stack.pop()
        if target == "EDIF" and "EDIF.identifier" in o and not edif_identifier_legal(o["EDIF.identifier"]):
            return False
        for ck, lst in kids(o):
            names = set()
            ids = set()
            for c in lst:
                if ".NAME" in c:
                    if c[".NAME"] in names:
                        return False
                    names.add(c[".NAME"])
                if target == "EDIF" and "EDIF.identifier" in c:
                    i = c["EDIF.identifier"]
                    i = i.lower() if isinstance(i, str) else i
                    if i in ids:
                        return False
                    ids.add(i)
            stack.extend(lst)
    return True


class C10(Prop):
    id = "C10"
    engine = "iredit"
    fit = "A"
    rule = ("one evaluation = one seeded history of create/add/remove/re-add, rename, identifier "
            "set/delete/pop, name deletion, clone and policy-switch events over a small alphabet of colliding "
            "names under both naming policies; after every event every scope of every parent is queried "
            "through the public get_* functions for every present value and case variant and compared with a "
            "list scan, uniqueness is checked, and the ValueError outcome of every naming-relevant call is "
            "compared with an independent duplicate/illegal/compliance prediction made before the call; "
            "non-trivial = at least one naming-relevant call executed; distinct = distinct (event-kind "
            "multiset, final fingerprint) pairs")
    relevant_ops = set(ADD_OPS) | set(CREATE_OPS) | {"set_name", "del_name", "data_set", "data_del", "data_pop",
                                                        "remove_library", "remove_definition", "remove_port",
                                                        "remove_cable", "remove_child", "clone", "parse"}
    components_real = REAL + ["spydrnet.util.get_libraries/get_definitions/get_ports/get_cables/get_instances"]
    components_stub = STUB + ["active naming policy switched by workload events"]
    assumptions = ["a parent's policy is its own '.NS' entry (docs/source/reference/NamespaceManager.rst)",
                   "identifiers under the EDIF policy compare case-insensitively; names never fold case",
                   "the '.NS' entry itself is not edited by the workload"]
    runs = {"quick": 4000, "thorough": 80000}

    def configure(self, rng, tier):
        cfg = swarm_config(rng, base={"name": 6.0, "build": 6.0, "attach": 4.0, "remove": 3.5, "bulk_remove": 1.0,
                                      "orphans": 2.0, "connect": 0.3, "disconnect": 0.1, "bulk_disconnect": 0.05,
                                      "reference": 0.3, "top": 0.2, "bundle": 0.1, "data": 0.3, "hold": 0.0,
                                      "clone": 0.25, "policy": 0.5, "gc": 0.5, "ns": 0.0, "parse_text": 0.15, "adopt": 1.2},
                            rel_bias=["library", "definition", "port", "cable", "instance"])
        cfg["names"] = "collide"
        cfg["name_rate"] = rng.choice([0.6, 0.95])
        cfg["max_netlists"] = 2
        cfg["policy_start"] = rng.choice(["DEFAULT", "EDIF"])
        cfg["hostility"] = rng.choice([0.05, 0.1, 0.2])
        # the oracle's own lookups make the library (re)build indexes it fills lazily: in some runs they are made
        # after every step, in others only every k-th step or once at the end, so that edits also meet indexes
        # nobody has asked for yet (the uniqueness scan reads attributes only and runs after every step)
        cfg["lookup_every"] = rng.choice([1, 1, 1, 3, 8, 0])
        return cfg

    # ---- prediction made before the call ------------------------------------------
    def predict(self, w, ev):
        """Return None (no opinion) or a reason string/'' : '' = must not be refused by naming."""
        op = ev["op"]
        if op in ("set_name", "data_set"):
            key = ".NAME" if op == "set_name" else ev["key"]
            if key not in KEYS:
                return None
            e = w.h(ev["on"])
            if e is None:
                return None
            v = oplang._value(ev["v"])
            if op == "set_name" and v is None and ".NAME" in e:
                return ""  # this is a delete
            k = kind_of(e)
            if key == "EDIF.identifier" and scope_policy(e) == "EDIF" and not edif_identifier_legal(v):
                return "illegal"
            if k in CHILD_ACC:
                back, acc = CHILD_ACC[k]
                parent = getattr(e, back)
                if parent is not None and conflict_in_scope(parent, acc, e, key, v):
                    return "duplicate"
            return ""
        if op in ADD_OPS:
            parent = w.h(ev["on"])
            c = w.h(ev["x"])
            if parent is None or c is None or kind_of(c) != ADD_OPS[op]:
                return None
            back, acc = CHILD_ACC[ADD_OPS[op]]
            if getattr(c, back) is not None:
                return None  # precondition failure comes first
            return self._adopt(parent, acc, c, dict((k, c[k]) for k in KEYS if k in c), policy_of(c), c)
        if op in CREATE_OPS or op in NEW_OPS:
            default = World.policy()
            keys = {}
            if ev.get("name") is not None:
                keys[".NAME"] = ev["name"]
            props = ev.get("props") or {}
            for kk in KEYS:
                if kk in props:
                    keys[kk] = props[kk]
            if default == "EDIF" and "EDIF.identifier" in keys and not edif_identifier_legal(keys["EDIF.identifier"]):
                return "illegal"
            if op in NEW_OPS:
                return ""
            parent = w.h(ev["on"])
            if parent is None:
                return None
            back, acc = CHILD_ACC[CREATE_OPS[op]]
            return self._adopt(parent, acc, None, keys, default, None)
        return None

    @staticmethod
    def _adopt(parent, acc, elem, keys, child_ns, subtree):
        pns = policy_of(parent)
        for key, v in keys.items():
            if conflict_in_scope(parent, acc, elem, key, v):
                return "duplicate"
        if pns in ("DEFAULT", "EDIF") and child_ns != pns:
            if pns == "EDIF" and "EDIF.identifier" in keys and not edif_identifier_legal(keys["EDIF.identifier"]):
                return "noncompliant"
            if subtree is not None and not subtree_compliant(subtree, pns):
                return "noncompliant"
        return ""

    def start(self, w, cfg):
        self.cfg = cfg
        self.steps_seen = 0

    def before(self, w, ev):
        return self.predict(w, ev)

    def after(self, w, ev, outcome, pre):
        op = ev["op"]
        disc = op
        if pre is not None and outcome in ("ok", "refused:ValueError"):
            w.count("probe.predicted_" + (pre or "free"))
            if pre == "" and outcome != "ok":
                raise Violation("C10.refusal.false_conflict", disc,
                                "the call was refused (ValueError) although no sibling carries the name/identifier "
                                "and it is legal")
            if pre != "" and outcome == "ok":
                raise Violation("C10.refusal.missed_%s" % pre, disc,
                                "the call was accepted although it creates a %s name/identifier" % pre)
        if outcome == "skipped":
            return
        every = self.cfg.get("lookup_every", 1)
        self.steps_seen += 1
        self.sweep(w, ev, disc, op, lookups=bool(every) and self.steps_seen % every == 0)

    def finish(self, w, cfg):
        if cfg.get("lookup_every", 1) != 1:
            self.sweep(w, {}, "end_of_run", "end_of_run", lookups=True)

    def sweep(self, w, ev, disc, op, lookups):
        objs, _ = scan(w.roots())
        extra = [ev[k] for k in ("name", "v") if isinstance(ev.get(k), str)]
        for o in objs:
            k = kind_of(o)
            if k not in SCOPES:
                continue
            ns = policy_of(o)
            for ck, acc, cls, getter in SCOPES.get(k, ()):
                kids = list(getattr(o, acc))
                if not kids and not extra:
                    continue
                for key in KEYS:
                    vals = set(extra)
                    seen = {}
                    for c in kids:
                        if key in c and isinstance(c[key], str):
                            v = c[key]
                            vals.add(v)
                            vals.add(v.swapcase())
                            # uniqueness
                            if ns in ("DEFAULT", "EDIF") and (key == ".NAME" or ns == "EDIF"):
                                kk = v.lower() if (key == "EDIF.identifier") else v
                                if kk in seen:
                                    raise Violation("C10.unique.%s" % ("name" if key == ".NAME" else "identifier"),
                                                    disc, "%s and %s in %s both carry %r" % (
                                                        w.name_of(seen[kk]), w.name_of(c), w.name_of(o), v))
                                seen[kk] = c
                    for v in (vals if lookups else ()):
                        if "*" in v or "?" in v:
                            # such a value is a glob for get_*, not an exact name: the property speaks of
                            # lookups by exact name only (DESIGN 14)
                            w.count("probe.lookup_skipped_glob_value")
                            continue
                        want = scan_lookup(o, acc, key, v)
                        got = list(getter(o, v, key=key))
                        if len(got) != len(set(id(x) for x in got)):
                            raise Violation("C10.lookup.duplicate", disc, "%r returned twice" % v)
                        ws = set(id(x) for x in want)
                        gs = set(id(x) for x in got)
                        if ws != gs:
                            if gs and gs < ws:
                                # several siblings legitimately share the value (the policy does not make this
                                # key unique) and the exact lookup returned only some of them
                                sig = "C10.lookup.first_of_duplicates@%s/%s" % (key, ns)
                                if sig in self.known:
                                    w.count("known." + sig)
                                    continue
                                raise Violation("C10.lookup.first_of_duplicates", "%s/%s" % (key, ns),
                                                "get_%s(%s, %r, key=%r): scan finds %d, lookup returns %d" % (
                                                    acc, w.name_of(o), v, key, len(want), len(got)))
                            if ws - gs:
                                which = "missed"
                            elif all(kind_of(x) == ck and not any(x is y for y in kids) for x in got):
                                which = "ghost"
                            else:
                                which = "wrong_object"
                            raise Violation("C10.lookup.%s" % which, "%s/%s/%s" % (ck, key, ns),
                                            "get_%s(%s, %r, key=%r): scan finds %d, lookup returns %d (after %s)" % (
                                                acc, w.name_of(o), v, key, len(want), len(got), op))
        w.count("probe.scopes_swept")


PROP = C10
