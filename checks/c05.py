"""C05 - the EDIF reader builds exactly the design the file describes."""
from simkit.engine import Prop
from simkit import history, design_shrink
from simkit.gen_hier import ScriptGen
from simkit import corpus, textgen_edif
from simkit.oracles.canon import named, dict_diff, _freeze
from simkit.oracles.links import check_links
from simkit.oracles.mirror import check_mirror, check_self_contained, check_wire_endpoints
from simkit.model import scan
from simkit.violation import Violation
from simkit.world import World

REAL = ["spydrnet.parsers.edif (tokenizer, parser)", "namespace manager plugin (EDIF policy, case-insensitive "
        "identifier lookup)", "spydrnet.ir.*", "callback framework"]
STUB = ["file system (SimFS) and read chunking (short reads down to 1 character)", "naming policy at entry, fast "
        "lookup registered or not, passive third-party listeners (configuration faults)", "identity hash of IR "
        "objects"]


def expected_form(design):
    e = textgen_edif.expected(design)
    for lib in e["libs"].values():
        lib.pop("external", None)
        for d in lib["defs"].values():
            for k, v in list(d["instances"].items()):
                d["instances"][k] = (v[0], _freeze(v[1]), v[2])
            # the statement speaks of direction and array size of ports, not of a base index
            d["ports"] = tuple(p[:4] + p[5:] for p in d["ports"])
    e.pop("id", None)
    return e


class C05(Prop):
    id = "C05"
    engine = "textgen"
    fit = "B"
    rule = ("one evaluation = one abstract design (random hierarchy, multi-library, bus ports, bus nets with gaps "
            "in any bit order, identifier case variations, renames, string/integer/boolean properties, comments) "
            "rendered to EDIF text by an independent writer with seeded syntactic freedom, stored on the simulated "
            "disk and parsed under a seeded chunk law, naming policy at entry and listener configuration (or a "
            "bundled example, checked for well-formedness only); the name-level canonical form of the result is "
            "compared with the form derived from the abstract design; non-trivial = the design has at least one "
            "net with an endpoint; distinct = distinct (event-kind multiset, final fingerprint) pairs")
    relevant_ops = {"parse"}
    components_real = REAL
    components_stub = STUB
    assumptions = ["the independent writer emits only constructs the statement lists as supported",
                   "bus nets get plain names and identifiers (not starting with a backslash or '&_'): escaped names "
                   "are scalar by convention and the '&_' case is an open finding of C17/C03",
                   "port base indices are not compared (the statement lists direction and array size)"]
    runs = {"quick": 10000, "thorough": 250000}

    def configure(self, rng, tier):
        r = rng
        cfg = {"steps": 10 ** 6}
        cfg["source"] = "gen" if r.random() < 0.85 else "example"
        if cfg["source"] == "example":
            cfg["example"] = r.choice(corpus.names("edf", 12000 if tier == "quick" else 70000))
        cfg["chunk_law"] = r.choice(["whole", "32768", "1..64", "1..7"])
        cfg["policy_start"] = r.choice(["DEFAULT", "EDIF"])
        cfg["lookup_cache"] = r.random() < 0.85
        cfg["passive_listeners"] = r.choice([0, 0, 1, 2])
        cfg["gen"] = {"n_libs": r.choice([1, 1, 2, 3]), "max_cells": r.choice([2, 3, 4]),
                      "max_ports": r.choice([1, 3]), "max_insts": r.choice([1, 3]), "max_nets": r.choice([2, 4, 6]),
                      "hier_rate": r.choice([0.5, 0.9])}
        cfg["render"] = {"kwcase": r.choice(["lower", "camel", "upper", "mixed"]), "refcase": r.random() < 0.5,
                         "ws": r.choice(["plain", "plain", "wild"]), "comment_rate": r.choice([0.0, 0.2]),
                         "design_refcase": r.random() < 0.5}
        cfg["prior_rejected"] = r.random() < 0.2   # an earlier, refused read in the same process
        if not cfg["lookup_cache"]:
            # without the namespace plugin there is no case-insensitive identifier index: only exact-case
            # references are a supported input of that configuration
            cfg["render"]["refcase"] = False
            cfg["render"]["design_refcase"] = False
        return cfg

    def make_gen(self, w, rng, cfg):
        ev = [{"op": "fs_config", "chunk_law": cfg["chunk_law"], "seed": cfg.get("hash_seed", 0) % (2 ** 31)}]
        for k in range(cfg["passive_listeners"]):
            ev.append({"op": "listener_add", "kind": "passive", "id": k})
        if cfg["source"] == "example":
            ev.append({"op": "fs_put_example", "name": cfg["example"], "path": "sim://in.edf"})
        else:
            d = textgen_edif.gen_design(rng, cfg["gen"])
            rs = rng.getrandbits(32)
            text = design_shrink.render("edf", d, rs, cfg["render"])
            if cfg.get("prior_rejected"):
                ev.extend(history.prior_rejected(rng, text, "sim://bad.edf"))
            ev.append({"op": "fs_put", "path": "sim://in.edf", "text": text, "design": d, "fmt": "edf",
                       "render": cfg["render"], "render_seed": rs})
        ev.append({"op": "parse", "path": "sim://in.edf"})
        return ScriptGen(ev)

    def start(self, w, cfg):
        self.design = None
        import simkit.listeners  # registers listener ops

    def before(self, w, ev):
        if ev.get("prior"):
            return None
        if ev["op"] == "fs_put":
            self.design = ev.get("design")
        if ev["op"] == "parse":
            return World.process_state_fingerprint()
        return None

    def after(self, w, ev, outcome, pre):
        if ev["op"] != "parse":
            return
        if ev.get("prior"):
            w.count("fault.prior_read_" + ("refused" if outcome != "ok" else "accepted"))
            return
        disc = "gen" if self.design else "example"
        if outcome != "ok":
            raise Violation("C05.reader_rejected", "%s:%s:%s" % (disc, outcome.split(":", 1)[-1],
                                                               str(getattr(w, "last_error", ""))[:30]),
                            "the reader raised %s (%s) on supported input" % (outcome, getattr(w, "last_error", "")))
        n = w.h("e%d.0" % ev["i"])
        objs, _ = scan([n])
        check_links(objs, disc, w.name_of, P="C05.wellformed")
        check_mirror(objs, disc, w.name_of, P="C05.wellformed")
        check_self_contained(n, objs, disc, w.name_of, "C05.wellformed")
        check_wire_endpoints(n, disc, w.name_of, P="C05.wellformed")
        if World.process_state_fingerprint() != pre:
            raise Violation("C05.process_state", disc, "parse changed process-wide settings")
        if not self.design:
            w.count("probe.example_parsed")
            return
        want = expected_form(self.design)
        got = named(n, with_ids=True, port_lsb=False)
        for lib in got["libs"].values():
            pass
        d = dict_diff(want, got)
        if d:
            raise Violation("C05." + classify(d), "gen", d)
        if n.get("EDIF.identifier") != self.design["id"]:
            raise Violation("C05.rename", "netlist", "netlist identifier %r vs %r" % (n.get("EDIF.identifier"), self.design["id"]))
        for lib_m in self.design["libraries"]:
            lib = [l for l in n.libraries if l.name == lib_m["name"]][0]
            if bool(lib.get("EDIF.external", False)) != bool(lib_m["external"]):
                raise Violation("C05.libraries", "external", "external flag of %r" % lib_m["name"])
        # property value types
        for lib_m in self.design["libraries"]:
            for cm in lib_m["cells"]:
                for im in cm["instances"]:
                    for p in im["props"]:
                        pass
        if any(e for lib_m in self.design["libraries"] for c in lib_m["cells"] for nt in c["nets"]
               for e in nt["bits"] if e):
            w.count("probe.design_with_connected_net")
        w.count("probe.designs_compared")


def classify(d):
    if "/top" in d:
        return "top"
    if "/ports" in d:
        return "ports"
    if "/cables" in d:
        if "[3]" in d.split("/cables", 1)[1][:40] and False:
            return "nets"
        return "nets"
    if "/instances" in d:
        return "instances"
    if "/name" in d:
        return "rename"
    if "/id" in d:
        return "rename"
    return "libraries"


PROP = C05
