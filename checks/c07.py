"""C07 - clones are faithful, self-contained and independent of the original."""
from simkit.engine import Prop, run_events
from simkit import oplang
from simkit.gen_hier import hier_config, Builder, ScriptGen
from simkit.gen_iredit import swarm_config, Gen
from simkit.model import scan, Snapshot, FIELDS
from simkit.oracles.canon import positional, first_diff, owned_ids, is_self_contained, outgoing_closed
from simkit.oracles.links import check_links
from simkit.oracles.mirror import check_mirror
from simkit.oracles.naming import lookup_answers, SCOPES, KEYS
from simkit.oplang import owned_walk
from simkit.violation import Violation
from simkit.world import kind_of

import spydrnet as sdn

REAL = ["spydrnet.clone / every IR class' clone(), _clone, _clone_rip*", "spydrnet.uniquify, spydrnet.flatten "
        "(second histories)", "callback framework", "namespace manager plugin"]
STUB = ["identity hash of IR objects (PRNG chosen: memo dictionaries and reference sets iterate in seeded order)",
        "GC schedule"]


def _containers(o):
    """(attribute, value) for the list/dict/set valued attributes of an IR object (its own storage)."""
    seen = set()
    for cls in type(o).__mro__:
        for slot in getattr(cls, "__slots__", ()):
            if slot in seen:
                continue
            seen.add(slot)
            try:
                v = getattr(o, slot)
            except AttributeError:
                continue
            if type(v) in (list, dict, set):
                yield slot, v
    for slot, v in getattr(o, "__dict__", {}).items():
        if slot not in seen and type(v) in (list, dict, set):
            yield slot, v


def sc(x):
    """The scalar/array attribute as stored (the getter hides it while the bundle holds several items)."""
    return bool(getattr(x, "_is_scalar", x.is_scalar))


def mutable_pairs(a, b):
    """Pairs of corresponding mutable data values of two elements, at any depth (also inside tuples)."""
    def walk(k, x, y):
        if isinstance(x, (list, dict, set)):
            yield k, x, y
        if isinstance(x, (list, tuple)) and isinstance(y, (list, tuple)) and len(x) == len(y):
            for xi, yi in zip(x, y):
                yield from walk(k, xi, yi)
        elif isinstance(x, dict) and isinstance(y, dict):
            for kk in x:
                if kk in y:
                    yield from walk(k, x[kk], y[kk])
    for k, v in a.data.items():
        if k in b:
            yield from walk(k, v, b[k])


class SideGen(Gen):
    """iredit generator restricted to the objects of one side (plus whatever it creates itself)."""

    def __init__(self, w, rng, cfg, allowed_ids, first_new):
        super().__init__(w, rng, cfg)
        self.allowed = allowed_ids
        self.first_new = first_new

    def all(self, kind):
        w = self.w
        out = []
        for hd in w.order:
            o = w.handles[hd]
            if kind_of(o) != kind:
                continue
            if id(o) in self.allowed or int(hd[1:].split(".")[0]) >= self.first_new:
                if kind == "opin" and o.instance is not None and id(o.instance) not in self.allowed:
                    continue
                out.append((hd, o))
        return out


class C07Gen:
    """build (hier or free history) -> clone -> second history on one side."""

    def __init__(self, prop, w, rng, cfg):
        self.p, self.w, self.r, self.cfg = prop, w, rng, cfg
        self.phase = "build"
        if cfg["mode"] == "hier":
            b = Builder(rng, cfg)
            self.script = b.build()
            self.netlist_h = b.netlist
            self.free = None
        else:
            self.script = None
            self.free = Gen(w, rng, cfg)
            self.free_left = cfg["free_steps"]
        self.k = 0
        self.second = None
        self.second_left = cfg["second_steps"]

    def next(self):
        w, r = self.w, self.r
        if self.phase == "build":
            if self.script is not None:
                if self.k < len(self.script):
                    e = self.script[self.k]
                    self.k += 1
                    return dict(e)
            elif self.free_left > 0:
                self.free_left -= 1
                return self.free.next()
            self.phase = "clone"
            if self.cfg.get("policy_flip_before_clone"):
                # the process-wide default policy is switched just before the copy is made: the copy has to keep the
                # policy its source was built under, not the one that happens to be current
                from simkit.world import World
                return {"op": "policy", "v": "EDIF" if World.policy() != "EDIF" else "DEFAULT"}
        if self.phase == "clone":
            self.phase = "second"
            if self.cfg["mode"] == "hier" and r.random() < 0.8:
                return {"op": "clone", "on": self.netlist_h}
            kinds = ["netlist", "library", "definition", "instance", "port", "cable", "wire", "ipin", "opin"]
            r.shuffle(kinds)
            for k in kinds:
                if k == "opin":
                    # an outer pin of an instance as the root (connected ones first: their copy must come back detached
                    # and the wire they sit on must keep listing the original)
                    c = [(ih, ip) for ih in w.order if kind_of(w.handles[ih]) == "instance"
                         for ip in w.handles[ih].pins.keys() if w.handle_of(ip)]
                    c.sort(key=lambda t: w.handles[t[0]].pins[t[1]].wire is None)
                    if c:
                        ih, ip = c[0] if r.random() < 0.7 else r.choice(c)
                        return {"op": "clone", "pin": {"k": r.choice(["stored", "stored", "proxy"]), "i": ih, "p": w.handle_of(ip)}}
                    continue
                c = [h for h in w.order if kind_of(w.handles[h]) == k]
                if c:
                    return {"op": "clone", "on": r.choice(c)}
            return None
        if self.phase == "second":
            st = self.p.clone_state
            if st is None or st["kind"] != "netlist" or self.second_left <= 0:
                return None
            if self.second is None:
                side = r.choice(["copy", "source"])
                st["edited"] = side
                net = st["copy"] if side == "copy" else st["source"]
                st["watch"] = st["source"] if side == "copy" else st["copy"]
                st["watch_snap"] = Snapshot([st["watch"]])
                cfg2 = dict(self.cfg)
                cfg2["weights"] = dict(self.cfg["weights2"])
                self.second = SideGen(w, r, cfg2, owned_ids(net), st["event"] + 1)
                self.edit_net = net
            self.second_left -= 1
            x = r.random()
            hd = w.handle_of(self.edit_net)
            if x < 0.08:
                try:
                    from simkit.oracles.elab import Elab
                    el = Elab(self.edit_net)
                    if len(el.occ) > 300 or any(p[-1].reference is None for p in el.occ):
                        x = 1.0
                except OverflowError:
                    x = 1.0  # recursive hierarchy: uniquify/flatten would not terminate
            if x < 0.05 and self.edit_net.top_instance is not None and hd:
                return {"op": "uniquify", "on": hd}
            if x < 0.08 and self.edit_net.top_instance is not None and hd and self.cfg["mode"] == "hier":
                return {"op": "flatten", "on": hd}
            return self.second.next()
        return None


class C07(Prop):
    id = "C07"
    engine = "iredit+hier"
    fit = "A"
    rule = ("one evaluation = a netlist built either by the hierarchical generator or by a free edit history "
            "(unnamed elements, nested mutable user data, cross-library references, standalone or child top "
            "instance), one clone() of a randomly chosen element of any kind with all its postconditions "
            "checked, and - for netlist clones - a second seeded history of edits/uniquify/flatten applied to "
            "one side while the other side's identity-level snapshot must not change; non-trivial = the clone "
            "succeeded on an element that has sub-structure; distinct = distinct (event-kind multiset, final "
            "fingerprint) pairs")
    relevant_ops = {"clone"}
    components_real = REAL
    components_stub = STUB
    assumptions = ["closure / disjointness are demanded of netlist clones only when every pointer that leaves an "
                   "element of the source lands inside the source (instances outside the netlist that reference its "
                   "definitions are allowed: the copy must simply not have them)",
                   "is_top_instance flags are not part of the compared structure",
                   "the second history uses only objects of the edited side and objects it creates itself"]
    runs = {"quick": 8000, "thorough": 200000}

    def configure(self, rng, tier):
        if rng.random() < 0.55:
            cfg = hier_config(rng)
            cfg["mode"] = "hier"
            cfg["unnamed"] = rng.choice([0.0, 0.3, 1.0])
            cfg["child_props"] = True
            cfg["late_permute"] = rng.choice([0.0, 0.0, 0.4])
            cfg["ident_rate"] = rng.choice([0.0, 0.0, 0.5])      # identifiers, some differing from a sibling's in case only
            cfg["unique_idents"] = False
            cfg["hostility"] = 0.05
            cfg["names"] = "plain"
            cfg["name_rate"] = 0.5
            cfg["max_netlists"] = 1
            cfg["max_per_parent"] = 4
            cfg["proxy_rate"] = 0.2
            cfg["weights"] = {}
        else:
            cfg = swarm_config(rng, base={"clone": 0.0, "top": 1.5})
            cfg["mode"] = "free"
            cfg["free_steps"] = rng.choice([15, 30, 60])
            cfg["hostility"] = rng.choice([0.0, 0.05, 0.2])
        from simkit.gen_iredit import DEFAULT_WEIGHTS
        w2 = dict(DEFAULT_WEIGHTS)
        w2.update({"clone": 0.0, "policy": 0.0, "ns": 0.0, "gc": 0.3})
        cfg["weights2"] = w2
        cfg["second_steps"] = rng.choice([0, 5, 15, 30])
        cfg["policy_flip_before_clone"] = rng.random() < 0.25
        cfg["lookups_when"] = rng.choice(["at_clone", "at_end"]) if cfg["second_steps"] else "at_clone"
        cfg["steps"] = 10 ** 6
        return cfg

    def make_gen(self, w, rng, cfg):
        return C07Gen(self, w, rng, cfg)

    def start(self, w, cfg):
        self.clone_state = None
        self.cfg = cfg
        self.lookups_pending = None

    def finish(self, w, cfg):
        if self.lookups_pending is None:
            return
        # after the second history: on each side an exact lookup of a value carried by exactly one sibling
        # returns exactly that sibling
        for n in self.lookups_pending:
            scopes = [n] + [l for l in n.libraries] + [d for l in n.libraries for d in l.definitions]
            for a in scopes:
                for ck, acc, cls, getter in SCOPES[kind_of(a)]:
                    kids = list(getattr(a, acc))
                    for key in KEYS:
                        by_val = {}
                        for x in kids:
                            if key in x and isinstance(x[key], str):
                                by_val.setdefault(x[key], []).append(x)
                        for v, xs in by_val.items():
                            if len(xs) != 1:
                                continue
                            if key == "EDIF.identifier" and sum(1 for y in kids if key in y and isinstance(y[key], str)
                                                                 and y[key].lower() == v.lower()) != 1:
                                continue   # case variants of one identifier: the policy decides which ones match
                            got = list(getter(a, v, key=key))
                            if len(got) != 1 or got[0] is not xs[0]:
                                raise Violation("C07.netlist.lookup_after_edits", "%s/%s" % (ck, key),
                                                "after the second history an exact lookup of %r in %s returns %d "
                                                "elements instead of the one sibling that carries it" % (
                                                    v, w.name_of(a), len(got)))
            w.count("probe.lookups_after_second_history")

    # ---------------------------------------------------------------------------------
    def before(self, w, ev):
        if ev["op"] != "clone":
            return None
        if "pin" in ev:
            try:
                src = oplang.pinref(w, ev["pin"])
            except Exception:
                return None
        else:
            src = w.h(ev["on"])
        if src is None:
            return None
        pre = {"src": src, "snap": Snapshot(w.roots()), "kind": kind_of(src)}
        if pre["kind"] == "netlist":
            top = src.top_instance
            pre["self_contained"] = (outgoing_closed(src)
                                     and all(self.def_ok(d) for l in src.libraries for d in l.definitions)
                                     and (top is None or top.parent is not None
                                          or all(op.wire is None for op in top.pins.values())))
            pre["looks"] = None
        return pre

    def after(self, w, ev, outcome, pre):
        if ev["op"] == "clone" and pre is not None:
            self.check_clone(w, ev, outcome, pre)
            return
        st = self.clone_state
        if st and st.get("watch") is not None and outcome != "skipped":
            d = st["watch_snap"].diff(Snapshot([st["watch"]]))
            if d is not None:
                o, field, a, b = d
                raise Violation("C07.netlist.independence", "%s.%s" % (kind_of(o), field),
                                "%s on the %s changed %s of an element of the other netlist" % (
                                    ev["op"], st["edited"], field))
            w.count("probe.independence_checks")

    def check_clone(self, w, ev, outcome, pre):
        kind = pre["kind"]
        src = pre["src"]
        disc = kind
        if outcome != "ok":
            if not self.source_ok(src, kind, pre):
                # a source whose pins reach wires outside it (or the reverse) may be refused, but unharmed
                d = pre["snap"].diff(Snapshot(pre["snap"].objs))
                if d is not None:
                    raise Violation("C07.%s.source_changed" % kind, "refused_clone",
                                    "a refused clone() changed %s of %s" % (d[1], w.name_of(d[0])))
                w.count("probe.malformed_source_refused")
                return
            raise Violation("C07.%s.raised" % kind, outcome.split(":", 1)[-1], "clone() raised %s" % outcome)
        c = w.h("e%d.0" % ev["i"])
        if type(c) is not type(src):
            # the copy is an object of the very class of its source (the classes the package exports carry the query
            # shortcuts and are what every isinstance test of the library looks for)
            raise Violation("C07.%s.class" % kind, disc, "the copy is a %s.%s, the source a %s.%s" % (
                type(c).__module__, type(c).__name__, type(src).__module__, type(src).__name__))
        own = set(id(x) for x in owned_walk(c))
        for x in owned_walk(c):
            if kind_of(x) == "instance":
                own.update(id(op) for op in x.pins.values())
        # (5) the source and everything else that existed is unchanged, except reference sets that gained
        #     instances belonging to the clone
        now = Snapshot(pre["snap"].objs)
        for o in pre["snap"].objs:
            a, b = pre["snap"].rec[id(o)], now.rec.get(id(o))
            if a == b:
                continue
            names = FIELDS[kind_of(o)]
            for n_, x, y in zip(names, a, b):
                if x == y:
                    continue
                if n_ == "references" and x <= y and all(i in own for i in (y - x)):
                    continue
                raise Violation("C07.%s.source_changed" % kind, "%s.%s" % (kind_of(o), n_),
                                "cloning changed %s of %s" % (n_, w.name_of(o)))
        # shared objects
        before_ids = set(id(o) for o in pre["snap"].objs)
        if own & before_ids:
            raise Violation("C07.%s.shared_object" % kind, disc, "the copy contains an object of the original")
        # no two objects of the copy keep their members in one and the same container, and none keeps them in a
        # container of an object that existed before (a copy that looks right until one of the two is edited)
        holders = {}
        for o in list(pre["snap"].objs) + [x for x in owned_walk(c)] + [
                op for x in owned_walk(c) if kind_of(x) == "instance" for op in x.pins.values()]:
            for slot, v in _containers(o):
                first = holders.setdefault(id(v), (o, slot))
                if first[0] is not o and (id(o) in own or id(first[0]) in own):
                    raise Violation("C07.%s.container_shared" % kind, "%s.%s" % (kind_of(o), slot),
                                    "%s of %s and %s of %s are one %s object" % (
                                        first[1], w.name_of(first[0]), slot, w.name_of(o), type(v).__name__))
        getattr(self, "post_" + kind)(w, src, c, own, pre, disc)
        if len(own) > 1:
            w.count("probe.clone_with_substructure")
        self.clone_state = {"kind": kind if (kind != "netlist" or pre["self_contained"]) else "netlist_open",
                            "copy": c, "source": src, "event": ev["i"]}

    @staticmethod
    def def_ok(d):
        mine = set(id(x) for c in d.cables for x in c.wires)
        pins = set(id(x) for p in d.ports for x in p.pins)
        pins |= set(id(op) for i in d.children for op in i.pins.values())
        for p in d.ports:
            for x in p.pins:
                if x.wire is not None and id(x.wire) not in mine:
                    return False
        for i in d.children:
            for op in i.pins.values():
                if op.wire is not None and id(op.wire) not in mine:
                    return False
        for c in d.cables:
            for wr in c.wires:
                if any(id(x) not in pins for x in wr.pins):
                    return False
        return True

    def source_ok(self, src, kind, pre):
        if kind == "definition":
            return self.def_ok(src)
        if kind == "library":
            return all(self.def_ok(d) for d in src.definitions)
        if kind == "netlist":
            return pre["self_contained"]
        return True

    # -- data copies are deep -------------------------------------------------------------
    def deep(self, kind, a, b):
        if dict(a.data.items()) != dict(b.data.items()):
            raise Violation("C07.%s.data" % kind, kind_of(a), "data of the copy differs from the original's")
        for k, x, y in mutable_pairs(a, b):
            if x is y:
                raise Violation("C07.%s.data_shared" % kind, kind_of(a), "mutable data value under %r is shared" % k)

    # -- per kind ---------------------------------------------------------------------------
    def post_opin(self, w, s, c, own, pre, disc):
        if c.wire is not None or c.instance is not None:
            raise Violation("C07.opin.not_detached", disc, "cloned outer pin keeps instance or wire")

    def post_ipin(self, w, s, c, own, pre, disc):
        if c.port is not None or c.wire is not None:
            raise Violation("C07.ipin.not_detached", disc, "cloned pin keeps port or wire")

    def post_wire(self, w, s, c, own, pre, disc):
        if c.cable is not None or len(c.pins):
            raise Violation("C07.wire.not_detached", disc, "cloned wire keeps cable or pins")

    def post_cable(self, w, s, c, own, pre, disc):
        if c.definition is not None:
            raise Violation("C07.cable.not_detached", disc, "cloned cable keeps its definition")
        if len(c.wires) != len(s.wires) or any(x.cable is not c or len(x.pins) for x in c.wires):
            raise Violation("C07.cable.inner_structure", disc, "wires of the cloned cable")
        if (c.is_downto, sc(c), c.lower_index) != (s.is_downto, sc(s), s.lower_index):
            raise Violation("C07.cable.attributes", disc, "bundle attributes differ")
        self.deep("cable", s, c)

    def post_port(self, w, s, c, own, pre, disc):
        if c.definition is not None:
            raise Violation("C07.port.not_detached", disc, "cloned port keeps its definition")
        if len(c.pins) != len(s.pins) or any(x.port is not c or x.wire is not None for x in c.pins):
            raise Violation("C07.port.inner_structure", disc, "pins of the cloned port")
        if (c.is_downto, sc(c), c.lower_index, c.direction) != (s.is_downto, sc(s), s.lower_index,
                                                                         s.direction):
            raise Violation("C07.port.attributes", disc, "bundle attributes or direction differ")
        self.deep("port", s, c)

    def post_instance(self, w, s, c, own, pre, disc):
        if c.parent is not None:
            raise Violation("C07.instance.not_detached", disc, "cloned instance keeps its parent")
        if c.reference is not s.reference:
            raise Violation("C07.instance.reference", disc, "cloned instance references another definition")
        if s.reference is not None and not any(x is c for x in s.reference.references):
            raise Violation("C07.instance.refset_bookkeeping", disc, "clone not registered with its definition")
        want = [ip for p in (s.reference.ports if s.reference is not None else []) for ip in p.pins]
        have = list(c.pins.keys())
        if [id(x) for x in want] != [id(x) for x in have] and set(id(x) for x in want) != set(id(x) for x in have):
            raise Violation("C07.instance.pins", disc, "outer pins of the clone do not match the definition")
        for ip, op in c.pins.items():
            if op.instance is not c or op.inner_pin is not ip or op.wire is not None:
                raise Violation("C07.instance.side_connection", disc, "outer pin of the clone is not clean")
        self.deep("instance", s, c)

    def _def_form(self, d):
        n = sdn.Netlist()
        return None

    def post_definition(self, w, s, c, own, pre, disc):
        if c.library is not None:
            raise Violation("C07.definition.not_detached", disc, "cloned definition keeps its library")
        if len(c.references):
            raise Violation("C07.definition.refset_bookkeeping", disc, "cloned definition has references")
        self.compare_definition("definition", s, c, {}, disc)
        objs, _ = scan([c])
        check_links([o for o in objs if id(o) in own], disc, w.name_of, P="C07.definition.wellformed")
        for i in c.children:
            if i.reference is not None and not any(x is i for x in i.reference.references):
                raise Violation("C07.definition.refset_bookkeeping", disc,
                                "cloned child is not registered with its definition")

    def compare_definition(self, kind, s, c, defmap, disc):
        from simkit.oracles.canon import endpoint
        self.deep(kind, s, c)
        if len(s.ports) != len(c.ports) or len(s.cables) != len(c.cables) or len(s.children) != len(c.children):
            raise Violation("C07.%s.inner_structure" % kind, disc, "member counts differ")
        for a, b in zip(s.ports, c.ports):
            if b.definition is not c:
                raise Violation("C07.%s.inner_structure" % kind, disc, "port back-pointer")
            if (a.direction, a.is_downto, sc(a), a.lower_index, len(a.pins)) != (
                    b.direction, b.is_downto, sc(b), b.lower_index, len(b.pins)):
                raise Violation("C07.%s.inner_structure" % kind, disc, "port shape differs")
            self.deep(kind, a, b)
        for a, b in zip(s.children, c.children):
            if b.parent is not c:
                raise Violation("C07.%s.inner_structure" % kind, disc, "child back-pointer")
            want = defmap.get(id(a.reference), a.reference)
            if b.reference is not want:
                raise Violation("C07.%s.closure.reference" % kind, disc, "cloned child references the wrong definition")
            self.deep(kind, a, b)
            for ip, op in b.pins.items():
                if op.instance is not b or op.inner_pin is not ip:
                    raise Violation("C07.%s.closure.outer_pin" % kind, disc, "outer pin / inner pin pair broken")
                if b.reference is not None and (ip.port is None or ip.port.definition is not b.reference):
                    raise Violation("C07.%s.closure.inner_pin" % kind, disc,
                                    "outer pin names an inner pin outside the referenced definition")
        for a, b in zip(s.cables, c.cables):
            if b.definition is not c:
                raise Violation("C07.%s.inner_structure" % kind, disc, "cable back-pointer")
            if (a.is_downto, sc(a), a.lower_index, len(a.wires)) != (
                    b.is_downto, sc(b), b.lower_index, len(b.wires)):
                raise Violation("C07.%s.inner_structure" % kind, disc, "cable shape differs")
            self.deep(kind, a, b)
            for wa, wb in zip(a.wires, b.wires):
                ea = [endpoint(x, s, {}) for x in wa.pins]
                eb = [endpoint(x, c, {}) for x in wb.pins]
                # connections to pins outside the source definition are cut in the copy
                ea = [x for x in ea if not x[0].startswith("foreign")]
                if ea != eb:
                    raise Violation("C07.%s.connections" % kind, disc, "a wire of the copy joins different pins")
                for x in wb.pins:
                    if x.wire is not wb:
                        raise Violation("C07.%s.closure.pin_wire" % kind, disc, "pin-wire join of the copy broken")

    def post_library(self, w, s, c, own, pre, disc):
        if c.netlist is not None:
            raise Violation("C07.library.not_detached", disc, "cloned library keeps its netlist")
        if len(c.definitions) != len(s.definitions):
            raise Violation("C07.library.inner_structure", disc, "definition count differs")
        self.deep("library", s, c)
        defmap = dict((id(a), b) for a, b in zip(s.definitions, c.definitions))
        for a, b in zip(s.definitions, c.definitions):
            if b.library is not c:
                raise Violation("C07.library.inner_structure", disc, "definition back-pointer")
            self.compare_definition("library", a, b, defmap, disc)
            for r in b.references:
                if r.reference is not b:
                    raise Violation("C07.library.refset_bookkeeping", disc, "stale member in a cloned reference set")
            for i in b.children:
                if i.reference is not None and not any(x is i for x in i.reference.references):
                    raise Violation("C07.library.refset_bookkeeping", disc, "cloned child not registered")

    def post_netlist(self, w, s, c, own, pre, disc):
        # (3) structure
        fa, fb = positional(s), positional(c)
        if fa != fb:
            raise Violation("C07.netlist.structure", disc, first_diff(fa, fb) or "forms differ")
        for la, lb in zip(s.libraries, c.libraries):
            self.deep("netlist", la, lb)
            for da, db in zip(la.definitions, lb.definitions):
                self.deep("netlist", da, db)
                for a, b in zip(list(da.ports) + list(da.cables) + list(da.children),
                                list(db.ports) + list(db.cables) + list(db.children)):
                    self.deep("netlist", a, b)
        # (4) well-formed
        objs, _ = scan([c])
        mine = [o for o in objs if id(o) in own or kind_of(o) == "opin"]
        check_links(mine, disc, w.name_of, P="C07.netlist.wellformed")
        if pre["self_contained"]:
            w.count("probe.self_contained_source")
            # (1),(2) closure: nothing reachable from the copy lies outside it
            for o in objs:
                if id(o) not in own:
                    raise Violation("C07.netlist.closure.%s" % kind_of(o), disc,
                                    "a %s reachable from the copy is not part of the copy (%s)" % (
                                        kind_of(o), w.name_of(o)))
            check_mirror(objs, disc, w.name_of, P="C07.netlist.wellformed")
            # (6) queries: exact-name lookups and hierarchical counts agree.  The lookups make the library build the
            # name indexes of the copy (it fills them lazily): in half of the runs they are asked only after the
            # second history, so that the later edits also meet a copy nobody has queried yet.
            self.lookups_pending = (s, c) if self.cfg.get("lookups_when") == "at_end" else None
            for a, b in (self._scopes(s, c) if self.lookups_pending is None else ()):
                for ck, acc, cls, getter in SCOPES[kind_of(a)]:
                    for key in KEYS:
                        vals = set(x[key] for x in getattr(a, acc) if key in x and isinstance(x[key], str))
                        for v in vals:
                            if sum(1 for x in getattr(a, acc) if key in x and x[key] == v) > 1:
                                # several siblings carry this value (legal for identifiers under the DEFAULT policy,
                                # or produced by tampering with the reserved '.NS' entry): which of them an exact
                                # lookup returns is the open C10/C13 finding, not a property of the copy
                                w.count("probe.lookup_on_duplicated_value_skipped")
                                continue
                            ra = [list(getattr(a, acc)).index(x) for x in getter(a, v, key=key)]
                            rb = [list(getattr(b, acc)).index(x) for x in getter(b, v, key=key)
                                  if any(x is y for y in getattr(b, acc))]
                            nb = len(list(getter(b, v, key=key)))
                            if ra != rb or nb != len(rb):
                                raise Violation("C07.netlist.lookup", "%s/%s" % (ck, key),
                                                "exact lookup of %r answers differently on the copy" % v)
            finite = True
            try:
                from simkit.oracles.elab import Elab
                Elab(s)
            except OverflowError:
                finite = False  # recursive hierarchy: hierarchical queries do not terminate on it
            if finite and s.top_instance is not None and s.top_instance.reference is not None:
                for fn in (sdn.get_hinstances, sdn.get_hwires, sdn.get_hpins):
                    na = sum(1 for _ in fn(s, recursive=True))
                    nb = sum(1 for _ in fn(c, recursive=True))
                    if na != nb:
                        raise Violation("C07.netlist.hquery", fn.__name__, "%d on the source, %d on the copy" % (na, nb))

    @staticmethod
    def _scopes(s, c):
        yield s, c
        for la, lb in zip(s.libraries, c.libraries):
            yield la, lb
            for da, db in zip(la.definitions, lb.definitions):
                yield da, db


PROP = C07
