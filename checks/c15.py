"""C15 - rejected input fails cleanly and leaves no process-wide residue."""
import gc
import os
import signal
import sys
import hashlib

from simkit.engine import Prop
from simkit.gen_hier import ScriptGen
from simkit import corpus, corrupt, steps, oplang, textgen_edif, textgen_verilog, textgen_eblif
from simkit.oplang import need
from simkit.model import scan
from simkit.oracles.canon import named
from simkit.oracles.links import check_links
from simkit.oracles.mirror import check_mirror, check_self_contained, check_wire_endpoints
from simkit.simfs import norm
from simkit.violation import Violation
from simkit.world import World

import spydrnet as sdn

REAL = ["spydrnet.parsers (dispatcher), EDIF / Verilog / EBLIF tokenizers and parsers", "namespace manager plugin "
        "(active policy)", "callback framework registries", "spydrnet.ir.* (follow-up edits)"]
STUB = ["file system (SimFS): truncation at any character, EIO on the r-th read, short reads", "token level "
        "corruption of the stored text (delete / duplicate / replace / dangling reference / unsupported construct)",
        "virtual step budget for every reader call (sys.monitoring LINE events on the parser packages)",
        "identity hash of IR objects", "GC schedule"]

GOOD_EDIF = """(edif probe (edifVersion 2 0 0) (edifLevel 0) (keywordMap (keywordLevel 0))
 (library work (edifLevel 0) (technology (numberDefinition))
  (cell leaf (cellType GENERIC) (view netlist (viewType NETLIST) (interface (port I (direction INPUT)))))
  (cell top (cellType GENERIC) (view netlist (viewType NETLIST) (interface (port (array (rename d "d[1:0]") 2) (direction INPUT)))
    (contents (instance u (viewRef netlist (cellRef leaf (libraryRef work))))
      (net (rename n_0_ "n[0]") (joined (portRef (member d 0)) (portRef I (instanceRef u))))))))
 (design top (cellRef top (libraryRef work))))
"""
GOOD_V = """module leaf(input I); endmodule
module top(input [1:0] d); wire w; leaf u(.I(d[0])); leaf v(.I(w)); assign w = d[1]; endmodule
"""
GOOD_EBLIF = """.model top
.inputs a b
.outputs y
.names a b y
11 1
.end
"""
EXT = {"edf": "edf", "v": "v", "eblif": "eblif"}


@oplang.op("fs_plan")
def _(w, e):
    w.fs.plans[norm(e["path"])] = dict(e["plan"])


CPU_BUDGET_S = 20.0


def _interp_settings():
    return (("gc enabled", gc.isenabled()), ("gc thresholds", gc.get_threshold()), ("recursion limit", sys.getrecursionlimit()),
            ("working directory", os.getcwd()), ("sys.path", tuple(sys.path)), ("switch interval", sys.getswitchinterval()))


def _cpu_budget(signum, frame):
    raise steps.StepBudgetExceeded("more than %s s of CPU time inside one call of the reader" % CPU_BUDGET_S)


@oplang.op("parse_steps")
def _(w, e):
    """sdn.parse under the virtual step counter; with 'budget' the reader is interrupted when it exceeds it."""
    steps.start(e.get("budget"))
    w.last_parse = "running"
    w.last_hang = ""
    # the step counter sees executed lines of the reader modules; a loop inside one call (a regular expression that
    # backtracks without end) executes no line: the parse also runs under a budget of process CPU time (virtual timer:
    # it does not run while the process waits, so machine load does not matter), generous by a factor of > 100
    old = signal.signal(signal.SIGVTALRM, _cpu_budget)
    signal.setitimer(signal.ITIMER_VIRTUAL, CPU_BUDGET_S)
    # interpreter-wide settings are process-wide settings too. The simulator keeps the cyclic collector off (collections
    # are seeded events); for the duration of the call it is switched ON with thresholds no run can reach, so that
    # "enabled" is observable without a single unscheduled collection
    thr = gc.get_threshold()
    gc.set_threshold(2 ** 30, 2 ** 30, 2 ** 30)
    gc.enable()
    w.interp_before = _interp_settings()
    try:
        n = sdn.parse(e["path"], **({"architecture": e["arch"]} if e.get("arch") else {}))
        w.last_parse = "returned"
        return [n]
    except steps.StepBudgetExceeded as x:
        w.last_parse = "hang"
        w.last_hang = str(x.args[0]) if x.args and "CPU" in str(x.args[0]) else ""
        return None
    except BaseException:
        w.last_parse = "raised"
        raise
    finally:
        w.interp_after = _interp_settings()
        gc.disable()
        gc.set_threshold(*thr)
        signal.setitimer(signal.ITIMER_VIRTUAL, 0)
        signal.signal(signal.SIGVTALRM, old)
        w.last_steps = steps.stop()
        w.count("sim.reader_steps", w.last_steps)


def run_probe(w):
    """A fixed script whose observable behaviour must be what it is in a fresh process."""
    out = []
    try:
        d = sdn.Definition(name="probe def")
        d["EDIF.identifier"] = "a-b"
        out.append("id:accepted")
    except ValueError:
        out.append("id:refused")
    n = sdn.Netlist(name="p")
    out.append("ns:%s" % n.get(".NS"))
    lib = n.create_library("L")
    try:
        lib.create_definition("x", properties={"EDIF.identifier": "A"})
        lib.create_definition("y", properties={"EDIF.identifier": "a"})
        out.append("ci:accepted")
    except ValueError:
        out.append("ci:refused")
    for ext, text in (("edf", GOOD_EDIF), ("v", GOOD_V), ("eblif", GOOD_EBLIF)):
        w.fs.files["probe." + ext] = text
        w.fs.written_log["probe." + ext] = [text]
        w.fs.plans.pop("probe." + ext, None)
        try:
            m = sdn.parse("sim://probe." + ext)
            out.append("%s:%s" % (ext, hashlib.blake2b(repr(_sorted(named(m))).encode(), digest_size=8).hexdigest()))
        except Exception as x:
            out.append("%s:raised:%s" % (ext, type(x).__name__))
    out.append("state:%s" % hashlib.blake2b(repr(World.process_state_fingerprint()).encode(), digest_size=8).hexdigest())
    return out


def _sorted(x):
    if isinstance(x, dict):
        return tuple(sorted(((repr(k), _sorted(v)) for k, v in x.items())))
    if isinstance(x, (list, tuple)):
        return tuple(_sorted(y) for y in x)
    return x


@oplang.op("probe")
def _(w, e):
    w.last_probe = run_probe(w)


def valid_text(r, fmt, tier):
    x = r.random()
    if x < 0.25:
        names = corpus.names(fmt, 5000 if tier == "quick" else 20000)
        if names:
            return corpus.load()[r.choice(names)]
    if fmt == "edf":
        d = textgen_edif.gen_design(r, {"n_libs": r.choice([1, 2]), "max_cells": 2, "max_ports": 2, "max_insts": 2,
                                        "max_nets": 3})
        return textgen_edif.render(d, r, {"ws": "plain"})
    if fmt == "v":
        d = textgen_verilog.gen_design(r, {"depth": r.choice([1, 2, 3]), "max_mods": r.choice([1, 2]), "max_ports": 2,
                                           "max_wires": 2, "max_insts": r.choice([2, 3]), "max_prims": 2})
        return textgen_verilog.render(d, r, {"ws": "plain"})
    d = textgen_eblif.gen_design(r, {"max_ports": 2, "max_blackboxes": 2, "max_stmts": 4})
    return textgen_eblif.render(d, r, {"comment_rate": 0.1})


class C15(Prop):
    id = "C15"
    fp_mode = "history"
    engine = "corrupt"
    fit = "A"
    rule = ("one evaluation = one valid EDIF / Verilog / EBLIF text (generated, or a small bundled example), a fault "
            "plan (truncation at a token boundary or at any character, deletion / duplication / replacement of a "
            "token, a reference renamed to an undeclared identifier, an unsupported construct inserted, EIO on the "
            "r-th read) and a seeded short-read law; the reader is called under a virtual step budget of 50x the "
            "fault-free step count; then 0-4 further good or bad parses of any format and a few API edits follow, "
            "and a fixed probe script must behave as in a fresh process; a text whose only fault is a cut at a token "
            "boundary inside a Verilog module / primitive or EDIF form that the complete text closes must be refused; non-trivial = the fault plan was applied "
            "and changed what the reader saw; distinct = distinct (event-kind multiset, fingerprint of the sequence of states passed) pairs. "
            "The thorough tier additionally sweeps EVERY token boundary (truncation) and EVERY token (delete, "
            "duplicate) of every generated text of at most 400 tokens.")
    relevant_ops = {"parse_steps"}
    components_real = REAL
    components_stub = STUB
    assumptions = ["a reader that raises any exception has 'raised an error' (the statement does not fix its type)",
                   "the step budget counts executed lines of the tokenizer / parser modules only",
                   "must-raise is asserted only for EDIF dangling references, inserted unsupported constructs, and a single "
                   "token-boundary cut inside an unclosed module / primitive / EDIF form of a text without conditional "
                   "compilation"]
    runs = {"quick": 5000, "thorough": 60000}

    def configure(self, rng, tier):
        r = rng
        cfg = {"steps": 10 ** 6, "fmt": r.choice(["edf", "edf", "v", "v", "eblif"]),
               "chunk_law": r.choice(["whole", "32768", "1..64", "1..7"]),
               "policy_start": r.choice(["DEFAULT", "DEFAULT", "EDIF"]),
               "followups": r.choice([0, 0, 1, 2, 4]), "tier": tier,
               "sweep": tier == "thorough" and r.random() < 0.15}
        return cfg

    def make_gen(self, w, rng, cfg):
        r = rng
        fmt = cfg["fmt"]
        text = valid_text(r, fmt, cfg["tier"])
        toks, _ = corrupt.tokenize(fmt, text)
        ev = [{"op": "probe", "tag": "reference"},
              {"op": "fs_config", "chunk_law": cfg["chunk_law"], "seed": cfg.get("hash_seed", 0) % (2 ** 31)},
              {"op": "fs_put", "path": "sim://good." + fmt, "text": text},
              {"op": "parse_steps", "path": "sim://good." + fmt, "tag": "baseline"}]
        kinds = None
        if fmt != "edf":
            kinds = ["truncate_tok", "truncate_char", "delete", "duplicate", "replace", "read_error"]
        plans = []
        if cfg["sweep"] and len(toks) <= 400:
            for k in range(len(toks)):
                plans.append([{"f": "truncate_tok", "at": k}])
                plans.append([{"f": "delete", "at": k}])
                plans.append([{"f": "duplicate", "at": k}])
        else:
            plans.append(corrupt.plan(r, fmt, len(toks), len(text), kinds))
            if r.random() < 0.2:
                plans[0] = plans[0] + corrupt.plan(r, fmt, len(toks), len(text), kinds)
        for pi, pl in enumerate(plans):
            bad, read_plan, facts = corrupt.apply(fmt, text, pl)
            path = "sim://bad%d.%s" % (pi if len(plans) < 4 else 0, fmt)
            ev.append({"op": "fs_put", "path": path, "text": bad})
            ev.append({"op": "fs_plan", "path": path, "plan": read_plan})
            ev.append({"op": "parse_steps", "path": path, "tag": "faulted", "budget_mult": 50,
                       "facts": facts, "changed": bad != text or bool(read_plan)})
        for k in range(cfg["followups"]):
            x = r.random()
            f2 = r.choice(["edf", "v", "eblif"])
            t2 = valid_text(r, f2, cfg["tier"])
            if x < 0.4:
                ev.append({"op": "fs_put", "path": "sim://f%d.%s" % (k, f2), "text": t2})
                ev.append({"op": "parse_steps", "path": "sim://f%d.%s" % (k, f2), "tag": "follow_good"})
            elif x < 0.8:
                tk, _ = corrupt.tokenize(f2, t2)
                bad, read_plan, facts = corrupt.apply(f2, t2, corrupt.plan(r, f2, len(tk), len(t2), kinds if f2 != "edf" else None))
                # the step budget of a faulted follow-up is 50x the fault-free cost of ITS OWN text, measured first
                ev.append({"op": "fs_put", "path": "sim://f%d_ok.%s" % (k, f2), "text": t2})
                ev.append({"op": "parse_steps", "path": "sim://f%d_ok.%s" % (k, f2), "tag": "follow_base"})
                ev.append({"op": "fs_put", "path": "sim://f%d.%s" % (k, f2), "text": bad})
                ev.append({"op": "fs_plan", "path": "sim://f%d.%s" % (k, f2), "plan": read_plan})
                ev.append({"op": "parse_steps", "path": "sim://f%d.%s" % (k, f2), "tag": "follow_bad", "budget_mult": 50,
                           "facts": facts, "changed": True, "chars": len(bad)})
            elif x < 0.9:
                # the architecture= mode of parse: after the main reader, a primitive library (Verilog) is read and its port
                # directions are put into the netlist. The library is the text itself, another design, or either of
                # them cut short; whatever the outcome, the clauses on process-wide state hold after the call
                ev.append({"op": "fs_put", "path": "sim://f%d.%s" % (k, f2), "text": t2})
                lib = t2 if (f2 == "v" and r.random() < 0.6) else valid_text(r, "v", cfg["tier"])
                if r.random() < 0.6:
                    lib = lib[:max(1, int(len(lib) * r.uniform(0.1, 0.95)))]
                ev.append({"op": "fs_put", "path": "sim://f%d_lib.v" % k, "text": lib})
                ev.append({"op": "parse_steps", "path": "sim://f%d.%s" % (k, f2), "arch": "sim://f%d_lib.v" % k,
                           "tag": "follow_arch"})
            else:
                ev.append({"op": "netlist_new", "name": "n%d" % k})
                ev.append({"op": "create_library", "on": "e%d.0" % (len(ev) - 1), "name": "a-b",
                           "props": {"EDIF.identifier": "a-b"}, "tag": "edit"})
            if r.random() < 0.3:
                ev.append({"op": "gc"})
        ev.append({"op": "probe", "tag": "final"})
        return ScriptGen(ev)

    def start(self, w, cfg):
        self.reference = None
        self.base_steps = None
        self.follow_base = None
        self.to_release = None
        self.cfg = cfg
        w.last_parse = None
        w.last_steps = 0

    def before(self, w, ev):
        if self.to_release:
            w.release(self.to_release)   # (the state fingerprint taken after its own event still covered it)
            self.to_release = None
        if ev["op"] == "parse_steps":
            if ev.get("budget_mult"):
                if ev.get("tag") == "follow_bad":
                    # (without a measured baseline - the valid follow-up text was itself rejected, or the trace was
                    # shrunk - a budget from the size of the text: 200 lines per character)
                    base = self.follow_base or (4 * ev.get("chars", 100))
                else:
                    base = self.base_steps or 400
                ev["budget"] = max(20000, ev["budget_mult"] * base)
            return World.process_state_fingerprint()
        return None

    def after(self, w, ev, outcome, pre):
        op, tag = ev["op"], ev.get("tag")
        if op == "probe":
            if tag == "reference":
                self.reference = list(w.last_probe)
            else:
                if w.last_probe != self.reference:
                    diff = [(a, b) for a, b in zip(self.reference, w.last_probe) if a != b][:2]
                    raise Violation("C15.probe_digest", diff[0][0].split(":")[0] if diff else "len",
                                    "the probe script behaves differently than in a fresh process: %r" % (diff,))
                w.count("probe.final_probe_matches")
            return
        if op != "parse_steps":
            return
        fmt = ev["path"].rsplit(".", 1)[-1]
        facts = ev.get("facts") or {}
        what = "+".join(sorted(set(facts.get("applied", [])))) or "none"
        disc = "%s/%s" % (fmt, tag)
        if tag == "follow_base":
            self.follow_base = w.last_steps if outcome == "ok" else None
        if tag == "baseline":
            self.base_steps = w.last_steps
            if outcome != "ok":
                # the valid text itself is rejected: that is C05/C06/C18's business; nothing to claim here
                self.base_steps = None
                w.count("probe.baseline_rejected")
        if w.last_parse == "hang":
            raise Violation("C15.hang", "%s/%s" % (fmt, what),
                            getattr(w, "last_hang", "") or
                            "the reader executed more than %s lines without ending (fault-free: %s)" % (
                                ev.get("budget"), self.base_steps))
        if ev.get("changed"):
            w.count("probe.faulted_parses")
            for a in facts.get("applied", []):
                w.count("fault.%s" % a)
        w.count("probe.reader_%s" % ("returned" if outcome == "ok" else "raised"))
        if facts.get("unterminated") and outcome != "ok":
            w.count("probe.cut_inside_unclosed_construct_rejected")
        # (4) process-wide settings are what they were before the call, after success and after rejection
        if getattr(w, "interp_after", None) != getattr(w, "interp_before", None):
            diff = [a[0] for a, b in zip(w.interp_before, w.interp_after) if a != b]
            raise Violation("C15.interpreter_setting_residue", "%s/%s" % (fmt, "returned" if outcome == "ok" else "raised"),
                            "after the call these interpreter-wide settings differ from before: %s" % ", ".join(diff))
        post = World.process_state_fingerprint()
        if post != pre:
            which = "policy" if post[0] != pre[0] else ("listeners" if post[1] != pre[1] else (
                "lookups" if post[2] != pre[2] else "namespace_manager_flag"))
            raise Violation("C15.%s_residue" % which, "%s/%s" % (fmt, "returned" if outcome == "ok" else "raised"),
                            "after the call the %s differ from before (%r -> %r)" % (
                                which, pre[0] if which == "policy" else "...", post[0] if which == "policy" else "..."))
        if outcome == "ok":
            n = w.h("e%d.0" % ev["i"])
            if n is not None:
                objs, _ = scan([n])
                check_links(objs, disc, w.name_of, P="C15.half_built")
                check_mirror(objs, disc, w.name_of, P="C15.half_built")
                check_self_contained(n, objs, disc, w.name_of, "C15.half_built")
                check_wire_endpoints(n, disc, w.name_of, P="C15.half_built")
            if facts.get("unterminated") and tag == "faulted" and not ev.get("arch"):
                # the only fault is a cut at a token boundary inside a module / primitive / EDIF form that the
                # complete text closes: a netlist made of the part before the cut is a half-built one
                raise Violation("C15.half_built.unterminated_accepted", "%s/truncate_tok" % fmt,
                                "the reader returned a netlist for a text that ends inside an unclosed %s" % (
                                    "form" if fmt == "edf" else "module"))
            if facts.get("must_raise"):
                kind = [a for a in facts["applied"] if a.startswith("dangling") or a == "unsupported"][0]
                raise Violation("C15.%s_accepted" % ("unsupported" if kind == "unsupported" else "dangling"), kind,
                                "the reader returned a netlist for a text with %s" % kind)
            # nothing later in the run refers to this netlist: let it go (a complete sweep returns hundreds, and
            # every one of them would be walked again by the state fingerprint after each later event)
            self.to_release = "e%d.0" % ev["i"]


PROP = C15
