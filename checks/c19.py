"""C19 - listeners are told of every structural change before it happens."""
from simkit.engine import Prop, run_events, RunResult
from simkit.gen_iredit import swarm_config
from simkit.model import scan
from simkit.listeners import ShadowListener, check_partials
from simkit.violation import Violation
from checks.c01 import REAL, STUB

LISTENER_OPS = ("listener_add", "listener_remove")


class C19(Prop):
    id = "C19"
    engine = "iredit"
    fit = "A"
    rule = ("one evaluation = one seeded history of editing calls with 1-3 announcement-driven shadow "
            "listeners, passive, gc-inside-callback and (in some runs) veto listeners registered and removed "
            "at seeded points; every shadow is compared with the real state after every event, and in runs "
            "without veto listeners the same trace is replayed without any third-party listener and must give "
            "the same outcomes and final state; non-trivial = at least one editing call executed while a "
            "shadow was registered; distinct = distinct (event-kind multiset, final fingerprint) pairs")
    components_real = REAL
    components_stub = STUB + ["third-party listeners (shadow, veto, passive, gc-inside)"]
    assumptions = ["a listener may read the objects named in an announcement (needed for the documented "
                   "positional re-keying of outer pins on reference change)",
                   "announcements carry no position, so order inside containers is not part of the mirror",
                   "after an event vetoed by a simulator-owned listener all shadows are re-synchronised"]
    runs = {"quick": 3500, "thorough": 120000}

    def configure(self, rng, tier):
        cfg = swarm_config(rng, base={"listener": 0.8, "clone": 0.0, "reference": 3.0, "remove": 3.5,
                                      "bulk_remove": 2.0, "bulk_disconnect": 1.5, "top": 1.2, "name": 2.0,
                                      "data": 1.5, "ns": 0.2, "policy": 0.1, "adopt": 0.4})
        cfg["veto"] = rng.random() < 0.35
        cfg["differential"] = (not cfg["veto"]) and rng.random() < 0.5
        return cfg

    def start(self, w, cfg):
        self.cfg = cfg

    def after(self, w, ev, outcome, pre):
        shadows = [l for l in w.listeners.values() if isinstance(l, ShadowListener)]
        if not shadows:
            return
        if ev["op"] in LISTENER_OPS:
            if outcome.startswith("refused"):
                raise Violation("C19.listener_registration", "%s:%s" % (ev["op"], outcome.split(":", 1)[-1]),
                                "registering or removing a listener (%s) raised %s" % (ev.get("kind", ev.get("id")), outcome))
            return
        if outcome == "refused:Veto":
            for s in shadows:
                s.sync()
            w.count("probe.resync_after_veto")
            return
        if outcome != "skipped":
            w.count("probe.compared_events")
        objs, _ = scan(w.roots())
        disc = ev["op"] if outcome == "ok" else ev["op"] + ":refused"
        for s in shadows:
            s.compare(objs, disc, w.name_of)
        if not self.cfg.get("veto"):
            check_partials(w, disc)   # (a veto ends the round of announcements before later listeners hear it)

    def run(self, w, cfg, streams, trace):
        res = run_events(self, w, cfg, streams, trace)
        if res.violation is None and cfg.get("differential"):
            bare = [e for e in res.trace if e["op"] not in LISTENER_OPS]
            cfg2 = dict(cfg)
            cfg2["differential"] = False
            res2 = run_events(_Bare(), w, cfg2, streams, bare)
            w.count("probe.differential_runs")
            a = [(e["i"], e["res"]) for e in res.trace if e["op"] not in LISTENER_OPS]
            b = [(e["i"], e["res"]) for e in res2.trace]
            if a != b or res.final_fp != res2.final_fp:
                where = next((x for x, y in zip(a, b) if x != y), None)
                res.violation = Violation("C19.listeners_change_behaviour", "differential",
                                          "same trace without listeners differs (first at %s)" % (where,))
            res.stats = dict(res.stats)
            res.stats["probe.differential_runs"] = res.stats.get("probe.differential_runs", 0) + 1
        return res


class _Bare(Prop):
    id = "C19"


PROP = C19
