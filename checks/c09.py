"""C09 - flatten removes all hierarchy and preserves leaf-level connectivity."""
from simkit.engine import Prop
from simkit import design_shrink, textgen_verilog
from simkit.gen_hier import hier_config, Builder, ScriptGen
from simkit.model import scan
from simkit.oracles.elab import Elab, partition_diff
from simkit.oracles.links import check_links
from simkit.oracles.mirror import check_mirror, check_wire_endpoints
from simkit.violation import Violation
from checks.c08 import STUB

REAL = ["spydrnet.flatten", "spydrnet.uniquify (precondition)", "spydrnet.ir.*", "callback framework",
        "namespace manager plugin"]


def user_data(inst):
    return dict((k, repr(v)) for k, v in inst.data.items()
                if not k.startswith(".") and k != "EDIF.identifier")


def flat_partition(netlist):
    top = netlist.top_instance
    d = top.reference
    groups = {}
    singles = []
    for pi, port in enumerate(d.ports):
        for bi, ip in enumerate(port.pins):
            ep = ("top", port.name if port.name is not None else "#%d" % pi, bi)
            if ip.wire is not None:
                groups.setdefault(id(ip.wire), set()).add(ep)
            else:
                singles.append(ep)
    for c in d.children:
        if c.reference is None:
            continue
        path = c.name or ""      # the slash-joined path as one string (an instance name may itself contain '/')
        for pi, port in enumerate(c.reference.ports):
            for bi, ip in enumerate(port.pins):
                ep = ("pin", path, port.name if port.name is not None else "#%d" % pi, bi)
                op = c.pins.get(ip)
                if op is not None and op.wire is not None:
                    groups.setdefault(id(op.wire), set()).add(ep)
                else:
                    singles.append(ep)
    parts = [frozenset(g) for g in groups.values()] + [frozenset([s]) for s in singles]
    return frozenset(parts)


def no_slash(x):
    """The same design with '.' for every '/' in its identifiers: '/' is the separator flatten joins paths with, and
    with it inside names two different paths can spell the same flattened name (which flatten then refuses)."""
    if isinstance(x, str):
        return x.replace("/", ".")
    if isinstance(x, (list, tuple)):
        return type(x)(no_slash(y) for y in x)
    if isinstance(x, dict):
        return dict((no_slash(k), no_slash(v)) for k, v in x.items())
    return x


def joined_paths(part):
    """The elaborator's endpoints name a leaf pin by the tuple of instance names; flatten names it by their join."""
    return frozenset(frozenset((("pin", "/".join(x or "" for x in e[1])) + tuple(e[2:])) if e[0] == "pin" else e for e in g)
                     for g in part)


class C09(Prop):
    id = "C09"
    engine = "hier"
    fit = "C"
    rule = ("one evaluation = one generated hierarchical design (named instances and cables; pass-through and "
            "wire-only cells, inner nets on several ports, ports unconnected inside or outside, bus ports), "
            "uniquified, then flattened; the independent elaboration before is compared with a direct reading "
            "of the top definition after (leaf set, names, leaf definition, user data, endpoint partition); "
            "non-trivial = the design has at least two levels below the top; distinct = distinct (event-kind "
            "multiset, final fingerprint) pairs")
    components_real = REAL
    components_stub = STUB
    assumptions = ["names may contain '/'; a design in which two different paths (of instances or of cables) spell the "
                   "same slash-joined name is skipped: the naming clause cannot hold for both",
                   "a leaf is a definition without children and without cables",
                   "instance data compared = user keys (not '.NAME', '.NS', 'EDIF.identifier', which flatten "
                   "is allowed to rewrite)"]
    runs = {"quick": 8000, "thorough": 200000}

    def configure(self, rng, tier):
        cfg = hier_config(rng)
        cfg["steps"] = 10 ** 6
        cfg["child_props"] = True
        cfg["extra_unreachable"] = False if rng.random() < 0.5 else cfg["extra_unreachable"]
        cfg["flat_counter_start"] = rng.choice([0, 0, 3, 10, 30, 61, 3843])
        cfg["ident_rate"] = rng.choice([0.0, 0.0, 0.5, 1.0])   # elements that carry an EDIF identifier (flatten rewrites it)
        cfg["late_pins"] = rng.choice([0, 0, 0.4])
        cfg["slash_rate"] = rng.choice([0, 0, 0.3])
        # the naming policy the design lives under, and names near the EDIF length limit: the slash-joined paths
        # flatten makes of them are far longer than any name the policy has seen before
        cfg["policy_start"] = rng.choice(["DEFAULT", "DEFAULT", "DEFAULT", "EDIF"])
        cfg["long_name_rate"] = rng.choice([0.0, 0.0, 0.1, 0.3])
        cfg["wire_reorder_rate"] = rng.choice([0, 0, 0.5])
        if rng.random() < 0.2:
            cfg["source"] = "v"
            cfg["vgen"] = {"depth": rng.choice([2, 3, 4]), "max_mods": rng.choice([1, 2, 3]), "max_ports": rng.choice([2, 4]),
                           "max_wires": 3, "max_insts": rng.choice([3, 5]), "max_prims": 2,
                           "order": rng.choice(["bottom_up", "top_down", "shuffled"]), "positional_rate": 0.2}
        return cfg

    def make_gen(self, w, rng, cfg):
        if cfg.get("source") == "v":
            # a design as the Verilog reader builds it (pin tables in mention order, assign cells, constants)
            d = textgen_verilog.gen_design(rng, cfg["vgen"])
            rs = rng.getrandbits(32)
            ev = [{"op": "fs_put", "path": "sim://in.v", "text": design_shrink.render("v", d, rs, {"ws": "plain", "comment_rate": 0.0}),
                   "design": d, "fmt": "v", "render": {"ws": "plain", "comment_rate": 0.0}, "render_seed": rs},
                  {"op": "parse", "path": "sim://in.v"}]
            return ScriptGen(ev + [{"op": "uniquify", "on": "e1.0"}, {"op": "flatten", "on": "e1.0"}])
        b = Builder(rng, cfg)
        ev = b.build()
        return ScriptGen(ev + [{"op": "uniquify", "on": b.netlist}, {"op": "flatten", "on": b.netlist}])

    def start(self, w, cfg):
        w.set_counters(flatten_mod=cfg.get("flat_counter_start", 0))

    def before(self, w, ev):
        if ev["op"] != "flatten":
            return None
        n = w.h(ev["on"])
        if n is None or n.top_instance is None or n.top_instance.reference is None:
            return None
        el = Elab(n)
        leaves = {}
        for p in el.leaf_occurrences():
            leaves["/".join(x or "" for x in el.names(p))] = (p[-1].reference, user_data(p[-1]))
        depth = max((len(p) for p in el.occ), default=1)
        if depth >= 3:
            w.count("probe.depth_ge_2_below_top")
        # '/' inside names: "named by its slash-joined path" can only hold if no two paths spell the same name.
        # Every occurrence (hierarchical cells are brought up under their joined name before they are dissolved)
        # and every cable of every occurrence must get a name of its own; otherwise nothing is claimed.
        inst_names = ["/".join(x or "" for x in el.names(p)) for p in el.occ if len(p) > 1]
        cable_names = []
        for p in el.occ:
            d = p[-1].reference
            if d is None:
                continue
            prefix = "/".join(x or "" for x in el.names(p))
            for c in d.cables:
                cable_names.append((prefix + "/" if len(p) > 1 else "") + (c.name or ""))
        if len(set(inst_names)) != len(inst_names) or len(set(cable_names)) != len(cable_names):
            w.count("probe.joined_names_ambiguous_skipped")
            return None
        if any("/" in (x.name or "") for p in el.occ for x in p[1:]):
            w.count("probe.design_with_slash_in_instance_name")
        return {"netlist": n, "leaves": leaves, "part": joined_paths(el.endpoint_partition()), "depth": depth}

    def after(self, w, ev, outcome, pre):
        if ev["op"] == "uniquify" and outcome != "ok":
            raise Violation("C09.uniquify_raised", outcome, "precondition step failed")
        if ev["op"] != "flatten" or pre is None:
            return
        disc = "flatten"
        if outcome != "ok":
            raise Violation("C09.raised", outcome.split(":", 1)[-1], "flatten raised: %s" % outcome)
        n = pre["netlist"]
        top = n.top_instance.reference
        got = {}
        for c in top.children:
            if c.reference is None or not c.reference.is_leaf():
                raise Violation("C09.hier_remains", disc, "child %r of the top definition is not a leaf" % c.name)
            if c.name in got:
                raise Violation("C09.leaf_name", disc, "two children named %r" % c.name)
            got[c.name] = (c.reference, user_data(c))
        want = pre["leaves"]
        if set(got) != set(want):
            missing = sorted(set(want) - set(got))[:3]
            extra = sorted(set(got) - set(want), key=repr)[:3]
            raise Violation("C09.leaf_set", disc, "missing %s extra %s" % (missing, extra))
        for k in want:
            if got[k][0] is not want[k][0]:
                raise Violation("C09.leaf_type", disc, "leaf %r changed definition" % k)
            if got[k][1] != want[k][1]:
                raise Violation("C09.leaf_data", disc, "leaf %r changed data" % k)
        part = flat_partition(n)
        if part != pre["part"]:
            msg = partition_diff(pre["part"], part) or "partition changed"
            which = "merged" if msg.startswith("merged") else ("split" if msg.startswith("split") else "endpoints")
            raise Violation("C09.partition.%s" % which, disc, msg)
        objs, _ = scan(w.roots() + [n])
        check_links(objs, disc, w.name_of, P="C09.wellformed")
        check_mirror(objs, disc, w.name_of, P="C09.wellformed")
        check_wire_endpoints(n, disc, w.name_of, P="C09.wellformed")


PROP = C09
