"""Bundled example netlists as an in-memory, read-only corpus (text by name)."""
import os
import zipfile

_cache = None
REPO = os.environ.get("VERIF_REPO", "/repo")
DIRS = {"edf": "EDIF_netlists", "v": "verilog_netlists", "eblif": "eblif_netlists"}


def load(max_compressed=6000):
    global _cache
    if _cache is not None:
        return _cache
    out = {}
    base = os.path.join(REPO, "example_netlists")
    for ext, d in DIRS.items():
        p = os.path.join(base, d)
        if not os.path.isdir(p):
            continue
        for fn in sorted(os.listdir(p)):
            full = os.path.join(p, fn)
            if not fn.endswith(".zip") or os.path.getsize(full) == 0 or os.path.getsize(full) > max_compressed:
                continue
            try:
                with zipfile.ZipFile(full) as z:
                    names = z.namelist()
                    if len(names) != 1:
                        continue
                    out[fn[:-4]] = z.read(names[0]).decode("utf-8", errors="replace")
            except zipfile.BadZipFile:
                continue
    _cache = out
    return out


def names(ext, max_chars=None):
    c = load()
    return sorted(k for k, v in c.items() if k.endswith("." + ext) and (max_chars is None or len(v) <= max_chars))
