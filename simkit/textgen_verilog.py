"""Abstract designs and an independent structural-Verilog writer (DESIGN 4.3).

No code shared with spydrnet's Verilog composer.  A design is a JSON-able dict;
``render`` writes it with seeded syntactic freedom; ``expected`` derives the
bit-level connectivity the reader is documented to build.
"""

DIRS = {"input": "IN", "output": "OUT", "inout": "INOUT"}


def ident(r, used, esc_rate=0.1):
    for _ in range(200):
        s = r.choice("abcdnqsxyABQ") + "".join(r.choice("abcxyz019_") for _ in range(r.randint(0, 4)))
        if r.random() < 0.06:
            # the names synthesis tools hand out: underscores and digits only (_05_, _12_, _0)
            s = "_" + "".join(r.choice("0123456789") for _ in range(r.randint(1, 3))) + r.choice(["_", "_", ""])
        if r.random() < esc_rate:
            s = "\\" + s + r.choice(["", "[0]", ".x", "/y", "$"])
        key = s[1:] if s.startswith("\\") else s     # \\abc and abc are the same Verilog identifier
        if key not in used and key not in KEYWORDS:
            used.add(key)
            return s
    raise RuntimeError("identifier space exhausted")


KEYWORDS = {"module", "endmodule", "input", "output", "inout", "wire", "reg", "assign", "parameter", "defparam",
            "tri0", "tri1", "primitive", "endprimitive", "function", "task", "begin", "end", "integer"}


def gen_design(r, cfg):
    names = set()
    prims = []
    for _ in range(r.randint(1, cfg.get("max_prims", 3))):
        p = {"name": ident(r, names, 0.0), "ports": [], "decl": r.choice(["none", "none", "celldefine"]),
             "pos": r.choice(["before", "after"])}
        pn = set()
        for _ in range(r.randint(1, 4)):
            p["ports"].append({"name": ident(r, pn, 0.05), "dir": r.choice(["input", "output", "inout"]),
                               "width": r.choice([1, 1, 1, 2, 4])})
        # attributes in front of the module inside the `celldefine block (kept on the primitive's definition)
        p["attrs"] = dict((k_, r.choice([None, "1", '"buffer"'])) for k_ in r.sample(["cell_kind", "dont_touch", "keep"], r.choice([0, 0, 1, 2]))) \
            if p["decl"] == "celldefine" else {}
        prims.append(p)
    modules = []
    mode = cfg.get("order", r.choice(["bottom_up", "top_down", "shuffled"]))
    depth = cfg.get("depth", r.choice([1, 2, 3]))
    levels = []
    for level in range(depth):
        row = []
        for _ in range(r.randint(1, cfg.get("max_mods", 2)) if level < depth - 1 else 1):
            m = {"name": ident(r, names, 0.05), "ports": [], "wires": [], "insts": [], "assigns": [], "params": {},
                 "attrs": {}, "level": level, "ansi": r.random() < 0.5}
            pn = set()
            for _ in range(r.randint(0 if (level == depth - 1 and r.random() < 0.2) else 1, cfg.get("max_ports", 3))):
                m["ports"].append({"name": ident(r, pn, 0.08), "dir": r.choice(["input", "output", "inout"]),
                                   "width": r.choice([1, 1, 2, 3, 4])})
                if r.random() < cfg.get("alias_rate", 0.12):
                    # an aliased header port  .p({n2, n1, n0})  : the port is only a port, the named scalar nets
                    # (most significant first) are what the body sees; directions are declared on those nets
                    p_ = m["ports"][-1]
                    if p_["width"] > 1 and r.random() < 0.35 and mode == "bottom_up":
                        # (only for modules declared before their first use: for a module that was instanced
                        # earlier the reader has to know the width of n when it reads the header - outside the
                        # supported subset, see DESIGN 14)
                        # .p(n) with  input [w-1:0] n;  : one differently named net of the port's width
                        p_["alias_wide"] = ident(r, pn, 0.08)
                        m["ansi"] = False
                        continue
                    if p_["width"] > 1 and r.random() < 0.3:
                        # .p({n[0], n[2], n[1]}) : every bit of ONE differently named net, in any order
                        order = list(range(p_["width"]))
                        r.shuffle(order)
                        p_["alias_bits"] = {"net": ident(r, pn, 0.08), "order": order}   # most significant first
                        m["ansi"] = False
                        continue
                    p_["alias"] = [ident(r, pn, 0.08) for _ in range(p_["width"])]
                    p_["alias_wire_decl"] = r.random() < 0.5
                    m["ansi"] = False
            for _ in range(r.randint(0, cfg.get("max_wires", 3))):
                w = r.choice([1, 1, 2, 4])
                lsb = r.choice([0, 0, 0, 0, 1, 3, -1, -2, -3])   # wires may be based below zero
                m["wires"].append({"name": ident(r, pn, 0.08), "msb": lsb + w - 1, "lsb": lsb,
                                   "ranged": w > 1 or lsb != 0 or r.random() < 0.2})
            if r.random() < 0.3:
                # 1-3 header parameters, each with its own 'parameter' keyword; some carry a range or a type, which
                # belongs to that one parameter only (the reader keeps it in the key:  "[3:0] RESET")
                pnames = set()
                for _ in range(r.choice([1, 1, 2, 3])):
                    pre = r.choice(["", "", "", "[3:0] ", "[0:0] ", "integer "])
                    m["params"][pre + ident(r, pnames, 0.0)] = r.choice(["8'h0F", "3", '"str"'])
            if r.random() < 0.3:
                # one attribute list  (* k1 = v, k2, k3 = w *)  with 1-3 keys, valued and value-less in any order
                for k_ in r.sample(["keep", "dont_touch", "mark", "src"], r.choice([1, 1, 2, 3])):
                    m["attrs"][k_] = r.choice([None, '"true"', "1"])
            # instances of lower-level modules and primitives
            lower = [x for row2 in levels for x in row2]
            targets = [("mod", x) for x in lower] + [("prim", p) for p in prims]
            if level > 0 and lower:
                # make sure the hierarchy is connected: instantiate at least one module of the level below
                must = [("mod", r.choice(levels[level - 1]))]
            else:
                must = []
            inames = set(pn)
            implied = set()
            for kind, t in must + [r.choice(targets) for _ in range(r.randint(0 if must else 1, cfg.get("max_insts", 3)))]:
                inst = {"name": ident(r, inames, 0.1), "of": t["name"], "kind": kind, "params": {}, "attrs": {},
                        "positional": r.random() < cfg.get("positional_rate", 0.25) and not (
                            kind == "prim" and t["decl"] == "none"), "conns": []}
                if r.random() < 0.3:
                    inst["params"][r.choice(["INIT", "WIDTH", "MODE"])] = r.choice(["16'hEC80", "4", '"fast"'])
                if kind == "mod" and t["params"] and r.random() < 0.5:
                    # override a parameter the module declares in its header - with another value, or with the very
                    # value the header gives as default (redundant in Verilog, but it is what the source says)
                    for k_, v_ in t["params"].items():
                        inst["params"][k_.split(" ")[-1]] = v_ if r.random() < 0.5 else r.choice(["8'h0F", "3", "5", '"str"', '"x"'])
                if r.random() < 0.2:
                    for k_ in r.sample(["keep", "loc", "dont_touch"], r.choice([1, 1, 2, 3])):
                        inst["attrs"][k_] = r.choice([None, '"X1Y2"', "1"])
                ports = t["ports"]
                if inst["positional"]:
                    # a prefix of the ports, each with an expression (an empty positional slot is not generated)
                    k = r.randint(0, len(ports))
                    for p in ports[:k]:
                        inst["conns"].append((p["name"], gen_expr(r, m, p["width"], implied, pn, allow_empty=False)))
                else:
                    chosen = [p for p in ports if r.random() < 0.8]
                    r.shuffle(chosen)
                    for p in chosen:
                        inst["conns"].append((p["name"], gen_expr(r, m, p["width"], implied, pn)))
                m["insts"].append(inst)
            for _ in range(r.choice([0, 0, 0, 1, 2])):
                w = r.choice([1, 1, 2])
                a = gen_simple(r, m, w)
                # (sometimes the two sides differ in width: the narrower one takes the low bits of the wider)
                b = gen_simple(r, m, w if r.random() < 0.7 else r.choice([1, 2, 3]))
                if a and b:
                    m["assigns"].append((a, b))
            m["implied"] = sorted(implied)
            row.append(m)
            modules.append(m)
        levels.append(row)
    order = list(modules)
    if mode == "top_down":
        order.reverse()
    elif mode == "shuffled":
        r.shuffle(order)
    # every non-top module must be used; instantiate unused ones from the top
    top = levels[-1][0]
    used = set(i["of"] for m in modules for i in m["insts"])
    for m in modules:
        if m is not top and m["name"] not in used:
            inames = set(x.lstrip("\\") for x in (
                [i["name"] for i in top["insts"]] + [p["name"] for p in top["ports"]] +
                [w["name"] for w in top["wires"]] + list(top.get("implied", []))))
            top["insts"].append({"name": ident(r, inames, 0.0), "of": m["name"], "kind": "mod", "params": {},
                                 "attrs": {}, "positional": False, "conns": []})
    return {"modules": [m for m in order], "prims": prims, "top": top["name"]}


def nets_of(m):
    """name -> (msb, lsb) of every declared net of a module (ports are based at 0)."""
    out = {}
    for p in m["ports"]:
        if p.get("alias"):
            for n in p["alias"]:
                out[n] = (0, 0)
            continue
        out[p.get("alias_wide") or (p.get("alias_bits") or {}).get("net") or p["name"]] = (p["width"] - 1, 0)
    for w in m["wires"]:
        out[w["name"]] = (w["msb"], w["lsb"])
    return out


def gen_simple(r, m, width):
    nets = nets_of(m)
    c = []
    for n, (msb, lsb) in nets.items():
        w = msb - lsb + 1
        if w == width:
            c.append(("id", n))
        if w > width:
            lo = r.randint(lsb, msb - width + 1)
            c.append(("part", n, lo + width - 1, lo) if width > 1 else ("bit", n, lo))
    return r.choice(c) if c else None


def gen_expr(r, m, pwidth, implied, taken_names, allow_empty=True):
    """An expression at most ``pwidth`` bits wide."""
    x = r.random()
    if allow_empty and x < 0.08:
        return None
    width = pwidth if r.random() < 0.75 else r.randint(1, pwidth)
    if x < 0.16 and width == 1:
        return ("const", r.choice([0, 1]))
    if x < 0.24 and width == 1:
        n = ident(r, taken_names, 0.1)
        implied.add(n)
        return ("id", n)
    if x < 0.45 and width > 1:
        parts = []
        left = width
        while left > 0:
            w = r.randint(1, left)
            e = gen_simple(r, m, w)
            if e is None:
                e = ("const", r.choice([0, 1])) if w == 1 else None
            if e is None:
                w = 1
                e = ("const", 0)
            parts.append(e)
            left -= w
        return ("cat", parts) if len(parts) > 1 or r.random() < 0.3 else parts[0]
    e = gen_simple(r, m, width)
    if e is None:
        n = ident(r, taken_names, 0.0)
        implied.add(n)
        return ("id", n)
    return e


# ---------------------------------------------------------------------------------------------
def bits_of(m, e, nets=None):
    """Bits of an expression, least significant first, as (net name, index)."""
    nets = nets or nets_of(m)
    k = e[0]
    if k == "const":
        return [("\\<const%d>" % e[1], 0)]
    if k == "id":
        if e[1] in nets:
            msb, lsb = nets[e[1]]
            return [(e[1], i) for i in range(lsb, msb + 1)]
        return [(e[1], 0)]
    if k == "bit":
        return [(e[1], e[2])]
    if k == "part":
        return [(e[1], i) for i in range(e[3], e[2] + 1)]
    if k == "cat":
        out = []
        for sub in reversed(e[1]):
            out.extend(bits_of(m, sub, nets))
        return out
    raise ValueError(e)


def expected(d):
    """Per module: ports, cables and the endpoints on every net bit; plus primitives and the top."""
    mods = {}
    prim_width = {}
    prim_ports = {}
    for p in d["prims"]:
        prim_ports[p["name"]] = [q["name"] for q in p["ports"]]
    by_name = dict((m["name"], m) for m in d["modules"])
    for m in d["modules"]:
        nets = nets_of(m)
        cables = {}
        for n, (msb, lsb) in nets.items():
            cables[n] = [lsb, msb]
        conn = {}

        def touch(bit):
            n, i = bit
            if n not in cables:
                cables[n] = [i, i]
            else:
                cables[n][0] = min(cables[n][0], i)
                cables[n][1] = max(cables[n][1], i)
            return conn.setdefault(bit, set())
        for p in m["ports"]:
            for i in range(p["width"]):
                if p.get("alias"):
                    touch((p["alias"][p["width"] - 1 - i], 0)).add(("port", p["name"], i))
                elif p.get("alias_bits"):
                    ab = p["alias_bits"]
                    touch((ab["net"], ab["order"][p["width"] - 1 - i])).add(("port", p["name"], i))
                else:
                    touch((p.get("alias_wide") or p["name"], i)).add(("port", p["name"], i))
        for inst in m["insts"]:
            for pname, e in inst["conns"]:
                if e is None:
                    if inst["kind"] == "prim":
                        key = (inst["of"], pname)
                        prim_width[key] = max(prim_width.get(key, 1), 1)
                    continue
                bl = bits_of(m, e, nets)
                if inst["kind"] == "prim":
                    key = (inst["of"], pname)
                    prim_width[key] = max(prim_width.get(key, 1), len(bl))
                for k, b in enumerate(bl):
                    touch(b).add(("inst", inst["name"], pname, k))
        for k, (lhs, rhs) in enumerate(m["assigns"]):
            lb, rb = bits_of(m, lhs, nets), bits_of(m, rhs, nets)
            w = min(len(lb), len(rb))
            nm = "SDN_VERILOG_ASSIGNMENT_%d_%d" % (w, k)
            # bit j of the left side is driven by bit j of the right side (pin j of ports o and i)
            for j in range(w):
                touch(lb[j]).add(("inst", nm, "o", j))
                touch(rb[j]).add(("inst", nm, "i", j))
        mods[m["name"]] = {
            "ports": [(p["name"], DIRS[p["dir"]], p["width"], 0) for p in m["ports"]],
            "cables": dict((n, (hi - lo + 1, lo)) for n, (lo, hi) in cables.items()),
            "conn": dict((b, frozenset(s)) for b, s in conn.items() if s),
            "insts": dict([(i["name"], (i["of"], dict(i["params"]), dict(i["attrs"]))) for i in m["insts"]] + [
                ("SDN_VERILOG_ASSIGNMENT_%d_%d" % (min(len(bits_of(m, a, nets)), len(bits_of(m, b, nets))), k),
                 ("SDN_VERILOG_ASSIGNMENT_%d" % min(len(bits_of(m, a, nets)), len(bits_of(m, b, nets))), {}, {}))
                for k, (a, b) in enumerate(m["assigns"])]),
            "params": dict(m["params"]), "attrs": dict(m["attrs"]),
        }
    prims = {}
    for p in d["prims"]:
        used = any(i["of"] == p["name"] for m in d["modules"] for i in m["insts"])
        if p["decl"] == "celldefine":
            prims[p["name"]] = {"declared": True, "ports": [(q["name"], DIRS[q["dir"]], q["width"]) for q in p["ports"]],
                                "attrs": dict(p.get("attrs") or {})}
        elif used:
            prims[p["name"]] = {"declared": False,
                                "widths": dict((pn, w) for (pr, pn), w in prim_width.items() if pr == p["name"])}
    return {"modules": mods, "prims": prims, "top": d["top"]}


# ---------------------------------------------------------------------------------------------
class Renderer:
    def __init__(self, r, cfg):
        self.r = r
        self.cfg = cfg

    def nm(self, s):
        return s + " " if s.startswith("\\") else s

    def sp(self):
        if self.cfg.get("ws") != "wild":
            return " "
        if self.cfg.get("comment_rate") and self.r.random() < 0.08:
            # comments in the middle of a statement, one or two in a row (both kinds)
            return self.r.choice([" /* c */ ", " // c\n    ", " // c\n    // d\n    ", " /* c */ /* d */ ",
                                  " // c\n    /* d */ "])
        return self.r.choice([" ", " ", "  ", "\n    ", "\t"])

    def comment(self):
        x = self.r.random()
        if x < self.cfg.get("comment_rate", 0.1):
            return self.r.choice(["// a comment ; ) (\n", "/* block ( ; */ ", "/* multi\n line */\n"])
        return ""

    def rng_(self, msb, lsb):
        return "[%d:%d]" % (msb, lsb)

    def expr(self, m, e):
        if e is None:
            return ""
        k = e[0]
        if k == "const":
            return "1'b%d" % e[1]
        if k == "id":
            return self.nm(e[1])
        if k == "bit":
            return "%s[%d]" % (self.nm(e[1]), e[2])
        if k == "part":
            return "%s[%d:%d]" % (self.nm(e[1]), e[2], e[3])
        if k == "cat":
            return "{" + (self.sp() + "," + self.sp()).join(self.expr(m, x) for x in e[1]) + "}"
        raise ValueError(e)

    def attrs(self, a):
        if not a:
            return ""
        items = []
        for k, v in a.items():
            items.append(k if v is None else "%s = %s" % (k, v))
        if self.cfg.get("split_attrs") and len(items) > 1 and self.r.random() < 0.5:
            # every attribute in a group of its own:  (* LOC = "X" *) (* DONT_TOUCH *)
            return " ".join("(* %s *)" % it for it in items) + "\n"
        return "(* " + ", ".join(items) + " *)\n"

    def module(self, d, m):
        r = self.r
        s = []
        s.append(self.attrs(m["attrs"]))
        s.append("module " + self.nm(m["name"]))
        if m["params"]:
            s.append("#(" + ", ".join("parameter %s = %s" % (k, v) for k, v in m["params"].items()) + ")")
        if m["ansi"]:
            ps = []
            for p in m["ports"]:
                ps.append("%s %s%s" % (p["dir"], (self.rng_(p["width"] - 1, 0) + " ") if p["width"] > 1 else "",
                                       self.nm(p["name"])))
            s.append("(" + (",\n    ".join(ps)) + ");\n")
        else:
            def hdr(p):
                if p.get("alias_wide"):
                    return ".%s(%s)" % (self.nm(p["name"]), self.nm(p["alias_wide"]))
                if p.get("alias_bits"):
                    ab = p["alias_bits"]
                    return ".%s({%s})" % (self.nm(p["name"]), (self.sp() + "," + self.sp()).join(
                        "%s[%d]" % (self.nm(ab["net"]), k) for k in ab["order"]))
                if not p.get("alias"):
                    return self.nm(p["name"])
                inner = (self.sp() + "," + self.sp()).join(self.nm(x) for x in p["alias"])
                if len(p["alias"]) > 1 or r.random() < 0.5:
                    inner = "{" + inner + "}"
                return ".%s(%s)" % (self.nm(p["name"]), inner)
            s.append("(" + ", ".join(hdr(p) for p in m["ports"]) + ");\n")
            grouped = set()
            if self.cfg.get("group_decls"):
                # one declaration naming several ports:  input [3:0] a, b, c;
                plain = [p for p in m["ports"] if not (p.get("alias") or p.get("alias_wide") or p.get("alias_bits"))]
                groups = {}
                for p in plain:
                    groups.setdefault((p["dir"], p["width"]), []).append(p)
                for (dr, wd), ps in groups.items():
                    if len(ps) > 1:
                        s.append("  %s %s%s;\n" % (dr, (self.rng_(wd - 1, 0) + " ") if wd > 1 else "",
                                                   (self.sp() + "," + self.sp()).join(self.nm(p["name"]) for p in ps)))
                        grouped.update(id(p) for p in ps)
            for p in m["ports"]:
                if id(p) in grouped:
                    continue
                if p.get("alias"):
                    for x in p["alias"]:
                        s.append("  %s %s;\n" % (p["dir"], self.nm(x)))
                    if p.get("alias_wire_decl"):
                        for x in p["alias"]:
                            s.append("  wire %s;\n" % self.nm(x))
                    continue
                if p.get("alias_wide") or p.get("alias_bits"):
                    s.append("  %s %s%s;\n" % (p["dir"], self.rng_(p["width"] - 1, 0) + " ",
                                               self.nm(p.get("alias_wide") or p["alias_bits"]["net"])))
                    continue
                s.append("  %s %s%s;\n" % (p["dir"], (self.rng_(p["width"] - 1, 0) + " ") if p["width"] > 1 else "",
                                           self.nm(p["name"])))
        s.append(self.comment())
        for w in m["wires"]:
            s.append("  %s %s%s;\n" % (self.cfg.get("wire_kw", "wire"),
                                       (self.rng_(w["msb"], w["lsb"]) + " ") if w["ranged"] else "", self.nm(w["name"])))
        body = []
        for inst in m["insts"]:
            t = self.attrs(inst["attrs"]) + "  " + self.nm(inst["of"])
            later = bool(inst["params"]) and bool(self.cfg.get("defparam")) and r.random() < 0.6
            if inst["params"] and not later:
                t += " #(" + ", ".join(".%s(%s)" % (k, v) for k, v in inst["params"].items()) + ")"
            t += " " + self.nm(inst["name"]) + " ("
            if inst["positional"]:
                t += ", ".join(self.expr(m, e) for _, e in inst["conns"])
            else:
                t += (",\n      ").join(".%s(%s)" % (self.nm(p), self.expr(m, e)) for p, e in inst["conns"])
            t += ");\n"
            if later:
                # the parameters follow their instance as defparam statements (the way Quartus writes netlists)
                for k, v in inst["params"].items():
                    t += "  defparam %s.%s = %s;\n" % (self.nm(inst["name"]), k, v)
            body.append(("inst", t))
        for a, b in m["assigns"]:
            body.append(("assign", "  assign %s = %s;\n" % (self.expr(m, a), self.expr(m, b))))
        # assigns keep their relative order (their instances are numbered in file order); instances may float
        insts = [x for x in body if x[0] == "inst"]
        assigns = [x for x in body if x[0] == "assign"]
        merged = []
        while insts or assigns:
            if insts and (not assigns or r.random() < 0.6):
                merged.append(insts.pop(0)[1])
            else:
                merged.append(assigns.pop(0)[1])
            merged.append(self.comment())
        s.extend(merged)
        s.append("endmodule\n")
        return "".join(s)

    def prim(self, p):
        ps = []
        for q in p["ports"]:
            ps.append("%s %s%s" % (q["dir"], ("[%d:0] " % (q["width"] - 1)) if q["width"] > 1 else "", self.nm(q["name"])))
        return "`celldefine\n%smodule %s(%s);\nendmodule\n`endcelldefine\n" % (self.attrs(p.get("attrs")), self.nm(p["name"]), ", ".join(ps))

    def render(self, d):
        out = []
        if self.r.random() < 0.3:
            out.append("`timescale 1 ps / 1 ps\n")
        for p in d["prims"]:
            if p["decl"] == "celldefine" and p["pos"] == "before":
                out.append(self.prim(p))
        for m in d["modules"]:
            out.append(self.module(d, m))
            out.append(self.comment())
        for p in d["prims"]:
            if p["decl"] == "celldefine" and p["pos"] == "after":
                out.append(self.prim(p))
        return "\n".join(out)


def render(d, r, cfg):
    return Renderer(r, cfg).render(d)
