"""Self-tests of the machinery: determinism (and, later, sensitivity)."""
import glob
import json
import os
import py_compile
import random
import subprocess
import sys

from . import runner

HOME = runner.HOME


def available_props():
    out = []
    for p in sorted(glob.glob(os.path.join(HOME, "checks", "c[0-9][0-9].py"))):
        out.append(os.path.basename(p)[:-3].upper())
    return out


def digests_inproc(prop_id, n, workers, seed):
    code, d = runner.run_property(prop_id, tier="quick", verif_seed=seed, nruns=n, workers=workers,
                                  budget_s=600, want_digests=True, quiet=True)
    if code == 2 or d is None:
        raise runner.HarnessError("digest collection failed for %s" % prop_id)
    if code == 1:
        # a run stopped at a violation: the digests after it are missing and the comparison means little
        print("NOTE %s: a violation was reported while collecting digests (seed %s, %d runs, %d workers)" % (
            prop_id, seed, n, workers), flush=True)
    return dict(d)


def digests_subprocess(prop_id, n, workers, seed, pyhash):
    env = dict(os.environ)
    env["VERIF_PYHASHSEED"] = str(pyhash)
    env["VERIF_SEED"] = str(seed)
    env["PATH"] = "/usr/bin:/bin"
    out = subprocess.run([os.path.join(HOME, "check"), "selftest", "digests", prop_id, str(n), str(workers)],
                         capture_output=True, text=True, env=env, timeout=900)
    for line in out.stdout.splitlines():
        if line.startswith("DIGESTS "):
            return {int(k): v for k, v in json.loads(line[8:]).items()}
    raise runner.HarnessError("no digests from subprocess: %s %s" % (out.stdout[-400:], out.stderr[-400:]))


def determinism(props, n, seed, worker_counts=(1, 4, 16), pyhash=12345):
    bad = 0
    for pid in props:
        agree = True
        ref = digests_inproc(pid, n, worker_counts[0], seed)
        for wc in worker_counts[1:]:
            other = digests_inproc(pid, n, wc, seed)
            diff = [i for i in ref if other.get(i) != ref[i]]
            if diff:
                bad += 1
                agree = False
                print("NONDETERMINISM %s: workers=%d vs %d differ at runs %s" % (pid, worker_counts[0], wc, diff[:5]))
        sub = digests_subprocess(pid, n, 3, seed, pyhash)
        diff = [i for i in ref if sub.get(i) != ref[i]]
        if diff:
            bad += 1
            agree = False
            print("NONDETERMINISM %s: fresh interpreter with PYTHONHASHSEED=%s differs at runs %s" % (
                pid, pyhash, diff[:5]))
        print("determinism %s: %d runs x %d configurations agree=%s" % (pid, n, len(worker_counts) + 1, agree),
              flush=True)
    return bad


def main(argv, seed):
    what = argv[0] if argv else "setup"
    if what == "digests":
        pid, n, wc = argv[1], int(argv[2]), int(argv[3])
        d = digests_inproc(pid, n, wc, seed)
        print("DIGESTS " + json.dumps(d))
        return 0
    if what == "setup":
        for p in glob.glob(os.path.join(HOME, "simkit", "**", "*.py"), recursive=True) + \
                glob.glob(os.path.join(HOME, "checks", "*.py")):
            compile(open(p).read(), p, "exec")
        bad = determinism(available_props(), 12, seed, worker_counts=(2, 5), pyhash=4242)
        print("setup: %s" % ("ok" if not bad else "FAILED"))
        return 2 if bad else 0
    if what == "determinism":
        n = int(argv[1]) if len(argv) > 1 else 200
        props = argv[2:] or available_props()
        bad = determinism(props, n, seed)
        return 2 if bad else 0
    if what == "sensitivity":
        from . import sensitivity
        return sensitivity.main(argv[1:], seed)
    print("unknown selftest", what)
    return 2
