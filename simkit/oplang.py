"""Operation language: JSON-able events executed literally against the real API.

An event is a dict ``{"i": n, "op": name, ...args}``.  Objects are named by the
event that produced them (``e<i>.<k>``), so any sub-sequence of a trace is
executable: an event whose handles are missing is skipped.
"""
import os

from .world import kind_of, HarnessError
from .violation import Violation, Veto

_HERE = os.path.dirname(os.path.abspath(__file__))

import spydrnet as sdn

OPS = {}


class Skip(Exception):
    pass


def op(name):
    def deco(f):
        OPS[name] = f
        return f
    return deco


def need(w, hd):
    if hd is None:
        return None
    o = w.h(hd)
    if o is None:
        raise Skip(hd)
    return o


def needs(w, hds):
    return [need(w, h) for h in hds]


def pinref(w, r):
    k = r["k"]
    if k in ("in", "held"):
        return need(w, r["h"])
    if k == "heldproxy":
        # a proxy OuterPin(instance, inner pin) the caller built earlier and uses again (the SAME object)
        p = getattr(w, "proxies", {}).get(r["h"])
        if p is None:
            raise Skip("no such held proxy")
        return p
    inst = need(w, r["i"])
    ip = need(w, r["p"])
    if k == "stored":
        o = inst.pins.get(ip)
        if o is None:
            raise Skip("no stored pin")
        return o
    if k == "proxy":
        w.count("probe.proxy_pin_built")
        return sdn.OuterPin.from_instance_and_inner_pin(inst, ip)
    raise HarnessError("bad pinref %r" % (r,))


def _coll(items, as_set):
    """The argument of a bulk call: a list, a set (PRNG-hashed iteration order), or a one-shot iterator/generator."""
    if as_set == "iter":
        return iter(list(items))
    if as_set == "gen":
        return (x for x in list(items))
    c = set(items) if as_set else list(items)
    _ARGS.append(c)
    return c


# containers handed to the call of the current event; the caller "reuses" (empties) them as soon as the call is over,
# so a library that kept the caller's container instead of a copy shows it at the next look
_ARGS = []


DIRS = {"in": sdn.IN, "out": sdn.OUT, "inout": sdn.INOUT, "undef": sdn.UNDEFINED}


def _dir(v):
    if v is None:
        return None
    if isinstance(v, str) and v in DIRS:
        return DIRS[v]
    return v


# -- constructors of orphans ---------------------------------------------------
@op("netlist_new")
def _(w, e):
    return [sdn.Netlist(name=e.get("name"), properties=e.get("props"))]


@op("library_new")
def _(w, e):
    return [sdn.Library(name=e.get("name"), properties=e.get("props"))]


@op("definition_new")
def _(w, e):
    return [sdn.Definition(name=e.get("name"), properties=e.get("props"))]


@op("port_new")
def _(w, e):
    return [sdn.Port(name=e.get("name"), properties=e.get("props"), is_downto=e.get("is_downto"),
                     is_scalar=e.get("is_scalar"), lower_index=e.get("lower_index"),
                     direction=_dir(e.get("direction")))]


@op("cable_new")
def _(w, e):
    return [sdn.Cable(name=e.get("name"), properties=e.get("props"), is_downto=e.get("is_downto"),
                      is_scalar=e.get("is_scalar"), lower_index=e.get("lower_index"))]


@op("instance_new")
def _(w, e):
    return [sdn.Instance(name=e.get("name"), properties=e.get("props"))]


@op("ipin_new")
def _(w, e):
    return [sdn.InnerPin()]


@op("wire_new")
def _(w, e):
    return [sdn.Wire()]


# -- netlist -----------------------------------------------------------------------
@op("create_library")
def _(w, e):
    return [need(w, e["on"]).create_library(name=e.get("name"), properties=e.get("props"))]


@op("add_library")
def _(w, e):
    need(w, e["on"]).add_library(need(w, e["x"]), position=e.get("position"))


@op("remove_library")
def _(w, e):
    need(w, e["on"]).remove_library(need(w, e["x"]))


@op("remove_libraries_from")
def _(w, e):
    need(w, e["on"]).remove_libraries_from(_coll(needs(w, e["xs"]), e.get("as_set")))


@op("set_libraries")
def _(w, e):
    need(w, e["on"]).libraries = _coll(needs(w, e["xs"]), e.get("as_set"))


@op("set_top")
def _(w, e):
    n = need(w, e["on"])
    x = need(w, e.get("x"))
    before = n.top_instance
    n.top_instance = x
    if kind_of(x) == "definition" and n.top_instance is not before:
        return [n.top_instance]


@op("set_top_instance")
def _(w, e):
    n = need(w, e["on"])
    x = need(w, e.get("x"))
    before = n.top_instance
    try:
        if "name" in e:
            n.set_top_instance(x, e["name"])
        else:
            n.set_top_instance(x)
    finally:
        # a wrapper instance may have been created even when the call is refused;
        # it is found by the closure walk, not bound to a handle
        pass
    if kind_of(x) == "definition" and n.top_instance is not before:
        return [n.top_instance]


# -- library ---------------------------------------------------------------------
@op("create_definition")
def _(w, e):
    return [need(w, e["on"]).create_definition(name=e.get("name"), properties=e.get("props"))]


@op("add_definition")
def _(w, e):
    need(w, e["on"]).add_definition(need(w, e["x"]), position=e.get("position"))


@op("remove_definition")
def _(w, e):
    need(w, e["on"]).remove_definition(need(w, e["x"]))


@op("remove_definitions_from")
def _(w, e):
    need(w, e["on"]).remove_definitions_from(_coll(needs(w, e["xs"]), e.get("as_set")))


@op("set_definitions")
def _(w, e):
    need(w, e["on"]).definitions = _coll(needs(w, e["xs"]), e.get("as_set"))


# -- definition ------------------------------------------------------------------
@op("create_port")
def _(w, e):
    p = need(w, e["on"]).create_port(name=e.get("name"), properties=e.get("props"),
                                     is_downto=e.get("is_downto"), is_scalar=e.get("is_scalar"),
                                     lower_index=e.get("lower_index"), direction=_dir(e.get("direction")),
                                     pins=e.get("pins"))
    return [p] + list(p.pins)


@op("add_port")
def _(w, e):
    need(w, e["on"]).add_port(need(w, e["x"]), position=e.get("position"))


@op("remove_port")
def _(w, e):
    need(w, e["on"]).remove_port(need(w, e["x"]))


@op("remove_ports_from")
def _(w, e):
    need(w, e["on"]).remove_ports_from(_coll(needs(w, e["xs"]), e.get("as_set")))


@op("set_ports")
def _(w, e):
    need(w, e["on"]).ports = _coll(needs(w, e["xs"]), e.get("as_set"))


@op("create_cable")
def _(w, e):
    c = need(w, e["on"]).create_cable(name=e.get("name"), properties=e.get("props"),
                                      is_downto=e.get("is_downto"), is_scalar=e.get("is_scalar"),
                                      lower_index=e.get("lower_index"), wires=e.get("wires"))
    return [c] + list(c.wires)


@op("add_cable")
def _(w, e):
    need(w, e["on"]).add_cable(need(w, e["x"]), position=e.get("position"))


@op("remove_cable")
def _(w, e):
    need(w, e["on"]).remove_cable(need(w, e["x"]))


@op("remove_cables_from")
def _(w, e):
    need(w, e["on"]).remove_cables_from(_coll(needs(w, e["xs"]), e.get("as_set")))


@op("set_cables")
def _(w, e):
    need(w, e["on"]).cables = _coll(needs(w, e["xs"]), e.get("as_set"))


@op("create_child")
def _(w, e):
    return [need(w, e["on"]).create_child(name=e.get("name"), properties=e.get("props"),
                                          reference=need(w, e.get("ref")))]


@op("add_child")
def _(w, e):
    need(w, e["on"]).add_child(need(w, e["x"]), position=e.get("position"))


@op("remove_child")
def _(w, e):
    need(w, e["on"]).remove_child(need(w, e["x"]))


@op("remove_children_from")
def _(w, e):
    need(w, e["on"]).remove_children_from(_coll(needs(w, e["xs"]), e.get("as_set")))


@op("set_children")
def _(w, e):
    need(w, e["on"]).children = _coll(needs(w, e["xs"]), e.get("as_set"))


# -- port / cable ------------------------------------------------------------------
@op("create_pin")
def _(w, e):
    return [need(w, e["on"]).create_pin()]


@op("create_pins")
def _(w, e):
    p = need(w, e["on"])
    n0 = len(p.pins)
    p.create_pins(e["n"])
    return list(p.pins)[n0:]


@op("add_pin")
def _(w, e):
    need(w, e["on"]).add_pin(need(w, e["x"]), position=e.get("position"))


@op("remove_pin")
def _(w, e):
    need(w, e["on"]).remove_pin(need(w, e["x"]))


@op("remove_pins_from")
def _(w, e):
    need(w, e["on"]).remove_pins_from(_coll(needs(w, e["xs"]), e.get("as_set")))


@op("set_pins")
def _(w, e):
    need(w, e["on"]).pins = _coll(needs(w, e["xs"]), e.get("as_set"))


@op("create_wire")
def _(w, e):
    return [need(w, e["on"]).create_wire()]


@op("create_wires")
def _(w, e):
    c = need(w, e["on"])
    n0 = len(c.wires)
    c.create_wires(e["n"])
    return list(c.wires)[n0:]


@op("add_wire")
def _(w, e):
    need(w, e["on"]).add_wire(need(w, e["x"]), position=e.get("position"))


@op("remove_wire")
def _(w, e):
    need(w, e["on"]).remove_wire(need(w, e["x"]))


@op("remove_wires_from")
def _(w, e):
    need(w, e["on"]).remove_wires_from(_coll(needs(w, e["xs"]), e.get("as_set")))


@op("set_wires")
def _(w, e):
    need(w, e["on"]).wires = _coll(needs(w, e["xs"]), e.get("as_set"))


@op("set_direction")
def _(w, e):
    need(w, e["on"]).direction = _dir(e["v"])


@op("set_downto")
def _(w, e):
    need(w, e["on"]).is_downto = e["v"]


@op("set_scalar")
def _(w, e):
    need(w, e["on"]).is_scalar = e["v"]


@op("set_array")
def _(w, e):
    need(w, e["on"]).is_array = e["v"]


@op("set_lower_index")
def _(w, e):
    need(w, e["on"]).lower_index = e["v"]


# -- wire -------------------------------------------------------------------------
@op("connect_pin")
def _(w, e):
    need(w, e["on"]).connect_pin(pinref(w, e["pin"]), position=e.get("position"))


@op("disconnect_pin")
def _(w, e):
    need(w, e["on"]).disconnect_pin(pinref(w, e["pin"]))


@op("disconnect_pins_from")
def _(w, e):
    need(w, e["on"]).disconnect_pins_from(_coll([pinref(w, r) for r in e["pins"]], e.get("as_set")))


@op("set_wire_pins")
def _(w, e):
    need(w, e["on"]).pins = _coll([pinref(w, r) for r in e["pins"]], e.get("as_set"))


# -- instance -----------------------------------------------------------------------
@op("set_reference")
def _(w, e):
    need(w, e["on"]).reference = need(w, e.get("x"))


@op("del_reference")
def _(w, e):
    del need(w, e["on"]).reference


@op("hold_opin")
def _(w, e):
    return [pinref(w, {"k": "stored", "i": e["inst"], "p": e["ipin"]})]


@op("hold_proxy")
def _(w, e):
    """The caller builds a proxy outer pin and keeps the object for later calls."""
    w.proxies[e["name"]] = sdn.OuterPin.from_instance_and_inner_pin(need(w, e["inst"]), need(w, e["ipin"]))
    w.count("probe.proxy_pin_held")


# -- names and data -----------------------------------------------------------------
@op("set_name")
def _(w, e):
    need(w, e["on"]).name = _value(e["v"])


@op("del_name")
def _(w, e):
    del need(w, e["on"]).name


class Label(str):
    """A string subclass (a front end's token class that also carries a source position, say)."""


def _value(v):
    """Event values are JSON: {"__tuple__": [...]} stands for a tuple (which may hold mutable items),
    {"__strsub__": "x"} for an instance of a str subclass."""
    if isinstance(v, dict) and set(v) == {"__strsub__"}:
        return Label(v["__strsub__"])
    if isinstance(v, dict) and set(v) == {"__tuple__"}:
        return tuple(_value(x) for x in v["__tuple__"])
    if isinstance(v, list):
        return [_value(x) for x in v]
    if isinstance(v, dict):
        return dict((k, _value(x)) for k, x in v.items())
    return v


@op("data_set")
def _(w, e):
    need(w, e["on"])[e["key"]] = _value(e["v"])


@op("data_del")
def _(w, e):
    del need(w, e["on"])[e["key"]]


@op("data_pop")
def _(w, e):
    need(w, e["on"]).pop(e["key"])


@op("rename_nth")
def _(w, e):
    """Rename the k-th instance / cable / port / definition of a netlist (in containment order): an edit of a netlist
    whose parts have no handles of their own (it was read from a file)."""
    n = need(w, e["on"])
    defs = [d for lib in n.libraries for d in lib.definitions]
    pool = {"definition": defs, "instance": [c for d in defs for c in d.children],
            "cable": [c for d in defs for c in d.cables], "port": [p for d in defs for p in d.ports]}[e["kind"]]
    pool = [x for x in pool if x.name is not None]
    if not pool:
        raise Skip("nothing to rename")
    pool[e["k"] % len(pool)].name = e["v"]


# -- clone --------------------------------------------------------------------------
def owned_walk(root):
    """Containment-tree walk used to give handles to the parts of a new object."""
    out = []

    def rec(o):
        out.append(o)
        k = kind_of(o)
        if k == "netlist":
            for x in o.libraries:
                rec(x)
            t = o.top_instance
            if t is not None and t.parent is None and not any(t is y for y in out):
                rec(t)
        elif k == "library":
            for x in o.definitions:
                rec(x)
        elif k == "definition":
            for x in o.ports:
                rec(x)
            for x in o.cables:
                rec(x)
            for x in o.children:
                rec(x)
        elif k == "port":
            for x in o.pins:
                rec(x)
        elif k == "cable":
            for x in o.wires:
                rec(x)
    rec(root)
    return out


@op("clone")
def _(w, e):
    src = pinref(w, e["pin"]) if "pin" in e else need(w, e["on"])   # (an outer pin is named through its instance)
    c = src.clone()
    return owned_walk(c)


# -- environment events ---------------------------------------------------------------
@op("gc")
def _(w, e):
    w.collect()


@op("policy")
def _(w, e):
    w.set_policy(e["v"])
    w.count("fault.policy_switch")


def execute(w, ev):
    """Run one event.  Returns (outcome, outputs)."""
    f = OPS.get(ev["op"])
    if f is None:
        raise HarnessError("unknown op %r" % ev["op"])
    i = ev["i"]
    w.begin_event(i)
    del _ARGS[:]
    try:
        try:
            outs = f(w, ev)
        finally:
            for c in _ARGS:
                c.clear()
            del _ARGS[:]
    except Skip:
        w.count("skipped")
        return "skipped", []
    except (HarnessError, Violation, RecursionError, MemoryError):
        raise
    except Exception as x:  # the API refused (or crashed): a legal outcome class
        tb = x.__traceback__
        while tb.tb_next is not None:
            tb = tb.tb_next
        fn = tb.tb_frame.f_code.co_filename
        if fn.startswith(_HERE) and not isinstance(x, Veto) and not getattr(x, "injected", False):
            raise HarnessError("exception inside the harness: %r" % (x,)) from x
        name = type(x).__name__
        import re as _re
        w.last_error = _re.sub(r"0x[0-9a-fA-F]+|\d+", "#", str(x.args[0]) if x.args else "")[:60] if not isinstance(
            x, Veto) else "veto"
        if getattr(x, "injected", False):
            name = type(x).__mro__[1].__name__
        return "refused:" + name, []
    outs = outs or []
    for k, o in enumerate(outs):
        w.bind("e%d.%d" % (i, k), o)
    return "ok", outs


# -- transformations ---------------------------------------------------------------------
@op("uniquify")
def _(w, e):
    from spydrnet.uniquify import uniquify
    uniquify(need(w, e["on"]))


@op("flatten")
def _(w, e):
    from spydrnet.flatten import flatten
    flatten(need(w, e["on"]))


# -- disk, clock, process ---------------------------------------------------------------------
@op("compose")
def _(w, e):
    n = need(w, e["on"])
    opts = dict(e.get("opts") or {})
    if "definition_list" in opts:
        dl = opts["definition_list"]
        if isinstance(dl, dict):
            # {"pick": seed, "k": n}: a seeded choice among the names present when the call is made
            import random as _random
            # the caller's list object is made once per (run, choice) and handed to every compose of the run that
            # names it: a writer must not use it up
            cache = w.deflists
            key = (dl["pick"], dl["k"], id(n))
            if key not in cache:
                names = sorted(d.name for lib in n.libraries for d in lib.definitions if d.name is not None)
                rr = _random.Random(dl["pick"])
                cache[key] = rr.sample(names, min(len(names), dl["k"])) if names else []
            opts["definition_list"] = cache[key]
        else:
            opts["definition_list"] = list(dl)
    if e.get("via") == "method":
        n.compose(e["path"], **opts)       # the shortcut spelling of sdn.compose(netlist, ...)
    else:
        sdn.compose(n, e["path"], **opts)


@op("parse")
def _(w, e):
    n = sdn.parse(e["path"])
    return owned_walk(n)


@op("fs_put")
def _(w, e):
    from .simfs import norm
    w.fs.files[norm(e["path"])] = e["text"]
    w.fs.written_log[norm(e["path"])] = [e["text"]]


@op("fs_damage")
def _(w, e):
    """A damaged copy of a file that is already there (a torn or cut-short write of the same text): the text of
    ``src`` up to the fraction ``frac`` of its length, or with the one character at that place left out."""
    from .simfs import norm
    text = w.fs.files.get(norm(e["src"]))
    if not isinstance(text, str) or len(text) < 4:
        raise Skip("nothing to damage")
    i = max(1, min(len(text) - 1, int(len(text) * e["frac"])))
    bad = text[:i] if e.get("how", "cut") == "cut" else text[:i] + " (( " + text[i:]
    w.fs.files[norm(e["dst"])] = bad
    w.fs.written_log[norm(e["dst"])] = [bad]


@op("restart")
def _(w, e):
    w.restart()


@op("clock_jump")
def _(w, e):
    w.clock.offset_s += e["d"]
    w.count("fault.clock_jump")


@op("fs_put_example")
def _(w, e):
    from . import corpus
    from .simfs import norm
    text = corpus.load()[e["name"]]
    w.fs.files[norm(e["path"])] = text
    w.fs.written_log[norm(e["path"])] = [text]


@op("fs_config")
def _(w, e):
    if "chunk_law" in e:
        w.fs.configure(e["chunk_law"], e.get("seed", 0))
    if "write_error_at" in e:
        w.fs.write_error_at = w.fs.total_writes + e["write_error_at"] if e["write_error_at"] else None


@op("query")
def _(w, e):
    """A read-only query between two composes (must not disturb anything)."""
    n = need(w, e["on"])
    fn = getattr(sdn, e["fn"])
    kw = {}
    if e.get("recursive"):
        kw["recursive"] = True
    list(fn(n, **kw))
