"""KNOWN_FINDINGS.txt: committed, line oriented, never written at run time.

    open:  property=C17 signature=<clause@disc> <what fails> witness=findings/<file>.json
    fixed: property=C02 <commit> <what failed> witness=findings/<file>.json
"""
import os
import re

HOME = os.environ.get("VERIF_HOME") or os.path.dirname(os.path.dirname(os.path.abspath(__file__)))
PATH = os.path.join(HOME, "KNOWN_FINDINGS.txt")


class Finding:
    def __init__(self, status, prop, signature, commit, what, witness):
        self.status = status
        self.prop = prop
        self.signature = signature
        self.commit = commit
        self.what = what
        self.witness = witness


def load(prop_id=None):
    out = []
    if not os.path.exists(PATH):
        return out
    for line in open(PATH):
        line = line.strip()
        if not line or line.startswith("#"):
            continue
        m = re.match(r"^(open|fixed):\s+property=(\S+)\s+(.*)$", line)
        if not m:
            raise ValueError("bad KNOWN_FINDINGS line: %r" % line)
        status, prop, rest = m.groups()
        witness = None
        mw = re.search(r"\s+witness=(\S+)\s*$", rest)
        if mw:
            witness = mw.group(1)
            rest = rest[:mw.start()]
        sig = commit = None
        if status == "open":
            ms = re.match(r"signature=(\S+)\s+(.*)$", rest)
            if not ms:
                raise ValueError("open finding without signature: %r" % line)
            sig, rest = ms.groups()
        else:
            mc = re.match(r"(\S+)\s+(.*)$", rest)
            commit, rest = mc.groups()
        if prop_id is None or prop == prop_id:
            out.append(Finding(status, prop, sig, commit, rest.strip(), witness))
    return out
