"""Command line of the simulator (always started through ./check)."""
import json
import os
import sys


def main(argv):
    from .world import scrub_check, HarnessError
    try:
        scrub_check()
    except HarnessError as x:
        print("HARNESS-ERROR %s" % x)
        return 2
    if not argv:
        print("usage: check run <Cxx> [--tier quick|thorough] | replay <file> | selftest <name> | list")
        return 2
    cmd = argv[0]
    seed = int(os.environ.get("VERIF_SEED") or 0)
    if cmd == "run":
        from . import runner
        prop_id = argv[1]
        tier = os.environ.get("VERIF_TIER") or "quick"
        runs = None
        workers = None
        i = 2
        while i < len(argv):
            if argv[i] == "--tier":
                if not os.environ.get("VERIF_TIER"):
                    tier = argv[i + 1]
                i += 2
            elif argv[i] == "--runs":
                runs = int(argv[i + 1])
                i += 2
            elif argv[i] == "--workers":
                workers = int(argv[i + 1])
                i += 2
            else:
                print("unknown option", argv[i])
                return 2
        try:
            code, _ = runner.run_property(prop_id, tier=tier, verif_seed=seed, nruns=runs, workers=workers)
        except HarnessError as x:
            print("HARNESS-ERROR property=%s %s" % (prop_id, x))
            return 2
        return code
    if cmd == "replay":
        from . import runner
        path = argv[1]
        doc, r = runner.replay_file(path, strict=True)
        want = doc.get("violation", {}).get("signature")
        got = r.violation.signature if r.violation else None
        print("replay %s: recorded=%s observed=%s digest=%s events=%d" % (path, want, got, r.digest, r.n_events))
        if r.violation:
            print("  " + r.violation.detail)
            print("VIOLATION property=%s replay=%s" % (doc["property"], path))
            return 1
        return 0
    if cmd == "selftest":
        from . import selftest
        return selftest.main(argv[1:], seed)
    if cmd == "one":
        # debugging aid: run a single index and print the trace
        from . import runner, engine
        prop = runner.load_prop(argv[1])
        r = engine.run_one(prop, runner.world(), seed, int(argv[2]), os.environ.get("VERIF_TIER") or "quick")
        for e in r.trace:
            print(json.dumps(e))
        print("violation:", r.violation, "digest:", r.digest)
        return 0
    print("unknown command", cmd)
    return 2


if __name__ == "__main__":
    try:
        rc = main(sys.argv[1:])
    except Exception:
        import traceback
        traceback.print_exc()
        print("HARNESS-ERROR uncaught exception")
        rc = 2
    sys.stdout.flush()
    sys.exit(rc)
