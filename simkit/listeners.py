"""Simulator-owned third-party listeners (DESIGN 1, 5.4): shadow, veto, passive, gc-inside."""
from spydrnet.callback.callback_listener import CallbackListener

from .violation import Violation, Veto
from .world import kind_of
from . import oplang

HOOKS = [
    "create_netlist", "create_library", "create_definition", "create_port", "create_cable", "create_instance",
    "cable_add_wire", "cable_remove_wire", "definition_add_port", "definition_remove_port",
    "definition_add_child", "definition_remove_child", "definition_add_cable", "definition_remove_cable",
    "instance_reference", "library_add_definition", "library_remove_definition", "netlist_top_instance",
    "netlist_add_library", "netlist_remove_library", "port_add_pin", "port_remove_pin", "wire_connect_pin",
    "wire_disconnect_pin", "dictionary_set", "dictionary_delete", "dictionary_pop",
]


def _mk(hook):
    def f(self, *args):
        return self.on(hook, args)
    f.__name__ = hook
    return f


class SimListener(CallbackListener):
    """Overrides every hook and funnels it into on(hook, args)."""

    def __init__(self, w):
        self.w = w
        self.calls = 0
        super().__init__()  # registers every overridden hook, after all existing listeners

    def on(self, hook, args):
        self.calls += 1


for _h in HOOKS:
    setattr(SimListener, _h, _mk(_h))


def _mk_counting(hook):
    def f(self, *args):
        self.per_hook[hook] = self.per_hook.get(hook, 0) + 1
        self.w.count("probe.partial_listener_calls")
    f.__name__ = hook
    return f


def make_partial(w, hooks, reference):
    """A listener that overrides only ``hooks`` (CallbackListener registers exactly the overridden ones). It counts its
    calls per hook; ``reference`` is a listener overriding every hook that was registered before it: from now on both
    must hear the same number of announcements of each of ``hooks``."""
    cls = type("PartialListener", (CallbackListener,), dict((h, _mk_counting(h)) for h in hooks))
    p = cls.__new__(cls)
    p.w = w
    p.hooks = list(hooks)
    p.per_hook = {}
    p.reference = reference
    p.base = dict(reference.per_hook_all) if reference is not None else {}
    CallbackListener.__init__(p)
    return p


def check_partials(w, disc):
    for lid, p in sorted(getattr(w, "listeners", {}).items()):
        if not hasattr(p, "hooks") or p.reference is None:
            continue
        if not any(v is p.reference for v in w.listeners.values()):
            p.reference = None   # the full listener it was compared with is gone
            continue
        for h in p.hooks:
            heard = p.per_hook.get(h, 0)
            full = p.reference.per_hook_all.get(h, 0) - p.base.get(h, 0)
            if heard != full:
                raise Violation("C19.partial_listener." + ("missed" if heard < full else "extra"), h,
                                "a listener overriding only %s heard %d announcements of %s, a listener overriding "
                                "every hook heard %d in the same time (%s)" % (sorted(p.hooks), heard, h, full, disc))


class PassiveListener(SimListener):
    pass


class GcInsideListener(SimListener):
    def __init__(self, w, every):
        self.every = max(1, every)
        super().__init__(w)

    def on(self, hook, args):
        self.calls += 1
        if self.calls % self.every == 0:
            self.w.count("probe.gc_inside_callback")
            self.w.collect()


class VetoListener(SimListener):
    """Vetoes the k-th event whose FIRST announcement is ``hook``.

    Only the first announcement of an event is ever vetoed: it precedes every modification
    ("callbacks are made after sanity checks but before modifications"), so a veto there is the
    documented right of a listener.  Vetoing a nested announcement in the middle of a compound
    operation (implicit disconnects, bulk removes) would leave a half-done edit behind, which no
    listed property promises to survive.
    """

    def __init__(self, w, hook, at):
        self.hook = hook
        self.at = at
        self.seen = 0
        self.last_event = None
        super().__init__(w)

    def on(self, hook, args):
        first = self.w.cur_event != self.last_event
        self.last_event = self.w.cur_event
        if first and hook == self.hook:
            self.seen += 1
            if self.seen == self.at:
                self.w.count("fault.veto")
                raise Veto("%s #%d" % (hook, self.at))


# ---------------------------------------------------------------------------------
# the announcement-driven shadow
# ---------------------------------------------------------------------------------
CONTAIN_HOOKS = {
    "netlist_add_library": ("libraries", True), "netlist_remove_library": ("libraries", False),
    "library_add_definition": ("definitions", True), "library_remove_definition": ("definitions", False),
    "definition_add_port": ("ports", True), "definition_remove_port": ("ports", False),
    "definition_add_cable": ("cables", True), "definition_remove_cable": ("cables", False),
    "definition_add_child": ("children", True), "definition_remove_child": ("children", False),
    "port_add_pin": ("pins", True), "port_remove_pin": ("pins", False),
    "cable_add_wire": ("wires", True), "cable_remove_wire": ("wires", False),
}
ACCS = {"netlist": ("libraries",), "library": ("definitions",), "definition": ("ports", "cables", "children"),
        "port": ("pins",), "cable": ("wires",)}


def pin_key(pin):
    if kind_of(pin) == "ipin":
        return id(pin)
    return (id(pin.instance), id(pin.inner_pin))


class ShadowListener(SimListener):
    """Holds a plain-dict model updated only from announcements."""

    def __init__(self, w, strict_before=True):
        self.keep = {}        # id -> object (keeps ids unique)
        self.members = {}     # (id(parent), accessor) -> set of child ids
        self.wire_pins = {}   # id(wire) -> set of pin keys
        self.ref = {}         # id(instance) -> id(definition) or None
        self.top = {}         # id(netlist) -> id(instance) or None
        self.data = {}        # id(element) -> dict
        self.per_hook_all = {}
        self.strict_before = strict_before
        super().__init__(w)
        self.sync()

    # -- (re)synchronise from the real state ------------------------------------
    def sync(self):
        from .model import scan
        self.members.clear()
        self.wire_pins.clear()
        self.ref.clear()
        self.top.clear()
        self.data.clear()
        objs, _ = scan(self.w.roots())
        for o in objs:
            self.learn(o)

    def learn(self, o):
        k = kind_of(o)
        self.keep[id(o)] = o
        for acc in ACCS.get(k, ()):
            self.members[(id(o), acc)] = set(id(c) for c in getattr(o, acc))
        if k == "wire":
            self.wire_pins[id(o)] = set(pin_key(p) for p in o.pins)
        if k == "instance":
            self.ref[id(o)] = None if o.reference is None else id(o.reference)
        if k == "netlist":
            self.top[id(o)] = None if o.top_instance is None else id(o.top_instance)
        if k in ("netlist", "library", "definition", "port", "cable", "instance"):
            self.data[id(o)] = dict(o.data.items())

    def know(self, o):
        if o is not None and id(o) not in self.keep:
            # first time we hear of an object that has no creation announcement (pins, wires) or that
            # predates us: it is known with its current (pre-change) real state
            self.learn(o)

    def early(self, what):
        raise Violation("C19.shadow.%s.announced_late" % what, self.cur_hook,
                        "the change was already visible when it was announced")

    # -- announcements -------------------------------------------------------------
    def on(self, hook, args):
        self.calls += 1
        self.cur_hook = hook
        self.per_hook_all[hook] = self.per_hook_all.get(hook, 0) + 1
        self.w.count("probe.announcements")
        for a in args[:2]:
            if kind_of(a) is not None:
                self.know(a)
        if hook.startswith("create_"):
            o = args[0]
            self.know(o)
            return
        if hook in CONTAIN_HOOKS:
            acc, add = CONTAIN_HOOKS[hook]
            parent, child = args
            s = self.members.setdefault((id(parent), acc), set())
            present = any(c is child for c in getattr(parent, acc))
            if add:
                if present and self.strict_before:
                    self.early("containment")
                s.add(id(child))
            else:
                if not present and self.strict_before:
                    self.early("containment")
                s.discard(id(child))
            return
        if hook == "wire_connect_pin":
            wire, pin = args
            key = pin_key(pin)
            s = self.wire_pins.setdefault(id(wire), set())
            if self.strict_before and key not in s and any(pin_key(p) == key for p in wire.pins):
                self.early("connection")
            s.add(key)
            return
        if hook == "wire_disconnect_pin":
            wire, pin = args
            self.wire_pins.setdefault(id(wire), set()).discard(pin_key(pin))
            return
        if hook == "instance_reference":
            inst, new = args
            self.know(new)
            old_id = self.ref.get(id(inst))
            if new is None:
                self.ref[id(inst)] = None
                return
            if old_id is not None:
                old = self.keep[old_id]
                # documented implicit effect: outer pins are re-keyed by position
                remap = {}
                for a, b in zip(old.ports, new.ports):
                    for x, y in zip(a.pins, b.pins):
                        remap[(id(inst), id(x))] = (id(inst), id(y))
                        self.keep[id(y)] = y
                for wid, s in self.wire_pins.items():
                    hit = [k for k in s if k in remap]
                    if hit:
                        for k in hit:
                            s.discard(k)
                        for k in hit:
                            s.add(remap[k])
            self.ref[id(inst)] = id(new)
            return
        if hook == "netlist_top_instance":
            n, x = args
            if kind_of(x) == "definition":
                return  # a second announcement names the wrapper instance
            self.top[id(n)] = None if x is None else id(x)
            return
        if hook == "dictionary_set":
            el, key, value = args
            d = self.data.setdefault(id(el), {})
            d[key] = value
            return
        if hook in ("dictionary_delete", "dictionary_pop"):
            el, key = args
            self.data.setdefault(id(el), {}).pop(key, None)
            return

    # -- comparison with the real state -------------------------------------------------
    def compare(self, objs, disc, name_of):
        for o in objs:
            k = kind_of(o)
            if id(o) not in self.keep:
                # never announced and never an argument: it must be pristine
                self.learn_pristine_check(o, k, disc, name_of)
                continue
            for acc in ACCS.get(k, ()):
                real = set(id(c) for c in getattr(o, acc))
                mine = self.members.get((id(o), acc), set())
                if real != mine:
                    which = "real_has_more" if real - mine else "mirror_has_more"
                    raise Violation("C19.shadow.containment.%s" % which, disc,
                                    "%s.%s: real has %d members, mirror has %d" % (name_of(o), acc, len(real), len(mine)))
            if k == "wire":
                real = set(pin_key(p) for p in o.pins)
                mine = self.wire_pins.get(id(o), set())
                if real != mine:
                    which = "real_has_more" if real - mine else "mirror_has_more"
                    raise Violation("C19.shadow.connection.%s" % which, disc,
                                    "%s: real pins %d, mirror %d" % (name_of(o), len(real), len(mine)))
            if k == "instance":
                real = None if o.reference is None else id(o.reference)
                if self.ref.get(id(o)) != real:
                    raise Violation("C19.shadow.reference.mismatch", disc,
                                    "%s.reference: real %s, mirror differs" % (name_of(o), name_of(o.reference)))
            if k == "netlist":
                real = None if o.top_instance is None else id(o.top_instance)
                if self.top.get(id(o)) != real:
                    raise Violation("C19.shadow.top.mismatch", disc,
                                    "%s.top_instance: real %s, mirror differs" % (name_of(o), name_of(o.top_instance)))
            if k in ("netlist", "library", "definition", "port", "cable", "instance"):
                real = dict(o.data.items())
                mine = self.data.get(id(o), {})
                if real != mine:
                    keys = sorted(set(real) ^ set(mine)) or sorted(kk for kk in real if real[kk] != mine.get(kk))
                    raise Violation("C19.shadow.data.mismatch", disc,
                                    "%s data differs at %s" % (name_of(o), keys[:3]))

        # instances the mirror heard of that are not (or no longer) reachable from any root - e.g. the instance a
        # refused create_child(reference=...) made and dropped: their reference, and the definition's set of
        # referring instances, still follow the announcements
        seen = set(id(o) for o in objs)
        for iid, did in self.ref.items():
            if iid in seen:
                continue
            o = self.keep[iid]
            real = None if o.reference is None else id(o.reference)
            if real != did:
                raise Violation("C19.shadow.reference.mismatch", disc + "/unreachable",
                                "an instance outside every netlist: real reference %s, mirror differs" % name_of(o.reference))
            if did is not None and not any(i is o for i in self.keep[did].references):
                raise Violation("C19.shadow.reference.mismatch", disc + "/unreachable",
                                "%s.references lacks an instance the announcements say refers to it" % name_of(self.keep[did]))

    def learn_pristine_check(self, o, k, disc, name_of):
        # an object nobody ever announced or mentioned: it can only be a pin or wire without links
        if k in ("netlist", "library", "definition", "port", "cable", "instance"):
            raise Violation("C19.shadow.creation.unannounced", disc, "%s was never announced" % name_of(o))
        if k == "wire" and (len(o.pins) or o.cable is not None):
            raise Violation("C19.shadow.connection.real_has_more", disc, "%s has unannounced links" % name_of(o))
        if k == "ipin" and o.port is not None:
            raise Violation("C19.shadow.containment.real_has_more", disc, "%s has an unannounced port" % name_of(o))
        self.learn(o)


def drop_all(w):
    w.listeners = {}


@oplang.op("listener_add")
def _(w, e):
    kind = e["kind"]
    if not hasattr(w, "listeners"):
        w.listeners = {}
    if kind == "shadow":
        l = ShadowListener(w)
    elif kind == "passive":
        l = PassiveListener(w)
    elif kind == "gc_inside":
        l = GcInsideListener(w, e.get("every", 5))
    elif kind == "veto":
        l = VetoListener(w, e["hook"], e.get("at", 1))
    elif kind == "partial":
        shadows = [v for k, v in sorted(w.listeners.items()) if isinstance(v, ShadowListener)]
        l = make_partial(w, e["hooks"], shadows[0] if shadows else None)
    else:
        raise oplang.HarnessError("listener kind %r" % kind)
    w.listeners[e["id"]] = l
    w.count("fault.listener_registered")


@oplang.op("listener_remove")
def _(w, e):
    l = getattr(w, "listeners", {}).pop(e["id"], None)
    if l is None:
        raise oplang.Skip("no listener")
    l.deregister_all_listeners()
    w.count("fault.listener_deregistered")
