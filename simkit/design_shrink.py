"""Design-level reduction of generated texts (the text of a run travels as ONE fs_put event).

The fs_put event of a generated text carries the abstract design, the format, the render configuration and
the render seed; a candidate is a smaller design, re-rendered with the same seed.  The shrinker (shrink.py)
keeps a candidate when the same violation signature persists.  Reductions only ever remove or simplify:
they never invent structure, so every candidate is a design the generator could have drawn.
"""
import copy
import random

from . import textgen_verilog, textgen_edif, textgen_eblif

RENDER = {"v": textgen_verilog.render, "edf": textgen_edif.render, "eblif": textgen_eblif.render}


def render(fmt, design, seed, rcfg):
    return RENDER[fmt](design, random.Random(seed), dict(rcfg or {}))


def _seq(x):
    return isinstance(x, (list, tuple))


# ------------------------------------------------------------------------------------------------
# Verilog
# ------------------------------------------------------------------------------------------------
def _v_names(e, out):
    if e is None:
        return
    k = e[0]
    if k in ("id", "bit", "part"):
        out.add(e[1])
    elif k == "cat":
        for s in e[1]:
            _v_names(s, out)


def _v_used(m):
    out = set()
    for i in m["insts"]:
        for _, e in i["conns"]:
            _v_names(e, out)
    for a, b in m["assigns"]:
        _v_names(a, out)
        _v_names(b, out)
    return out


def verilog_candidates(d):
    mods = d["modules"]
    # whole modules (never the top), with their instances elsewhere
    for k, m in enumerate(mods):
        if m["name"] == d["top"]:
            continue
        c = copy.deepcopy(d)
        del c["modules"][k]
        for m2 in c["modules"]:
            m2["insts"] = [i for i in m2["insts"] if not (i["kind"] == "mod" and i["of"] == m["name"])]
        yield c
    for k, p in enumerate(d["prims"]):
        if not any(i["of"] == p["name"] for m in mods for i in m["insts"]):
            c = copy.deepcopy(d)
            del c["prims"][k]
            yield c
    for mi, m in enumerate(mods):
        for k in range(len(m["insts"])):
            i = m["insts"][k]
            if i["kind"] == "mod" and sum(1 for m2 in mods for j in m2["insts"] if j["kind"] == "mod" and j["of"] == i["of"]) < 2:
                continue      # the design keeps a single root: the last instance of a module goes with the module
            c = copy.deepcopy(d)
            del c["modules"][mi]["insts"][k]
            yield c
        for k in range(len(m["assigns"])):
            c = copy.deepcopy(d)
            del c["modules"][mi]["assigns"][k]
            yield c
        used = _v_used(m)
        for k, wr in enumerate(m["wires"]):
            if wr["name"] not in used:
                c = copy.deepcopy(d)
                del c["modules"][mi]["wires"][k]
                yield c
        for k, p in enumerate(m["ports"]):
            inner = set(p.get("alias") or []) | {p.get("alias_wide") or (p.get("alias_bits") or {}).get("net") or p["name"]}
            if inner & used:
                continue
            c = copy.deepcopy(d)
            del c["modules"][mi]["ports"][k]
            for m2 in c["modules"]:
                for i in m2["insts"]:
                    if i["kind"] == "mod" and i["of"] == m["name"]:
                        i["conns"] = [x for x in i["conns"] if x[0] != p["name"]]
            yield c
        for k, i in enumerate(m["insts"]):
            for j in range(len(i["conns"])):
                if i["positional"] and j != len(i["conns"]) - 1:
                    continue      # positional maps can only lose their last slot
                c = copy.deepcopy(d)
                del c["modules"][mi]["insts"][k]["conns"][j]
                yield c
            for key in ("params", "attrs"):
                if i.get(key):
                    c = copy.deepcopy(d)
                    c["modules"][mi]["insts"][k][key] = {}
                    yield c
            if i["positional"] and not (i["kind"] == "prim"):
                c = copy.deepcopy(d)
                c["modules"][mi]["insts"][k]["positional"] = False
                yield c
        for key in ("params", "attrs"):
            if m.get(key):
                c = copy.deepcopy(d)
                c["modules"][mi][key] = {}
                yield c
        # narrower ports / wires are new designs only if nothing selects the bits that go away: not attempted


# ------------------------------------------------------------------------------------------------
# EDIF
# ------------------------------------------------------------------------------------------------
def _e_refs(d):
    out = set()
    for li, lib in enumerate(d["libraries"]):
        for c in lib["cells"]:
            for i in c["instances"]:
                out.add((i["of"][0], i["of"][1]))
    out.add((d["top"][0], d["top"][1]))
    return out


def _e_remap(d, removed_lib):
    def fix(of):
        li, cid = of
        return type(of)((li - 1 if li > removed_lib else li, cid))
    for lib in d["libraries"]:
        for c in lib["cells"]:
            for i in c["instances"]:
                i["of"] = fix(i["of"])
    d["top"] = fix(d["top"])


def _e_drop_eps(cell, pred):
    for net in cell["nets"]:
        net["bits"] = [None if b is None else [e for e in b if not pred(e)] for b in net["bits"]]


def edif_candidates(d):
    refs = _e_refs(d)
    libs = d["libraries"]
    for li, lib in enumerate(libs):
        if len(libs) > 1 and not any((li, c["id"]) in refs for c in lib["cells"]):
            c = copy.deepcopy(d)
            del c["libraries"][li]
            _e_remap(c, li)
            yield c
        for ci, cell in enumerate(lib["cells"]):
            if (li, cell["id"]) not in refs and len(lib["cells"]) > 1:
                c = copy.deepcopy(d)
                del c["libraries"][li]["cells"][ci]
                yield c
            for k, inst in enumerate(cell["instances"]):
                c = copy.deepcopy(d)
                cc = c["libraries"][li]["cells"][ci]
                del cc["instances"][k]
                _e_drop_eps(cc, lambda e, iid=inst["id"]: e[0] == "pin" and e[1] == iid)
                yield c
                if inst["props"]:
                    c = copy.deepcopy(d)
                    c["libraries"][li]["cells"][ci]["instances"][k]["props"] = []
                    yield c
            for k in range(len(cell["nets"])):
                c = copy.deepcopy(d)
                del c["libraries"][li]["cells"][ci]["nets"][k]
                yield c
            for k, net in enumerate(cell["nets"]):
                for b, eps in enumerate(net["bits"]):
                    for j in range(len(eps or [])):
                        c = copy.deepcopy(d)
                        del c["libraries"][li]["cells"][ci]["nets"][k]["bits"][b][j]
                        yield c
            for k, p in enumerate(cell["ports"]):
                c = copy.deepcopy(d)
                cc = c["libraries"][li]["cells"][ci]
                del cc["ports"][k]
                _e_drop_eps(cc, lambda e, pid=p["id"]: e[0] == "port" and e[1] == pid)
                for l2, lib2 in enumerate(c["libraries"]):
                    for c2 in lib2["cells"]:
                        mine = set(i["id"] for i in c2["instances"] if tuple(i["of"]) == (li, cell["id"]))
                        if mine:
                            _e_drop_eps(c2, lambda e, pid=p["id"], mine=mine: e[0] == "pin" and e[1] in mine and e[2] == pid)
                yield c
    # renames off
    for li, lib in enumerate(libs):
        for ci, cell in enumerate(lib["cells"]):
            for kind in ("instances", "nets"):
                for k, x in enumerate(cell[kind]):
                    if x.get("name") != x["id"]:
                        c = copy.deepcopy(d)
                        c["libraries"][li]["cells"][ci][kind][k]["name"] = x["id"]
                        yield c


# ------------------------------------------------------------------------------------------------
# EBLIF
# ------------------------------------------------------------------------------------------------
def eblif_candidates(d):
    for k in range(len(d["stmts"])):
        c = copy.deepcopy(d)
        del c["stmts"][k]
        yield c
    used = set(s["model"] for s in d["stmts"] if s["kind"] in ("subckt", "gate"))
    for k, bb in enumerate(d["blackboxes"]):
        if bb["name"] not in used and len(d["blackboxes"]) > 1:
            c = copy.deepcopy(d)
            del c["blackboxes"][k]
            yield c
    for key in ("inputs", "outputs"):
        for k in range(len(d[key])):
            if len(d[key]) > 1:
                c = copy.deepcopy(d)
                name = c[key][k][0]
                del c[key][k]
                c["clock"] = [x for x in c["clock"] if x != name]
                yield c
    if d["clock"]:
        c = copy.deepcopy(d)
        c["clock"] = []
        yield c
    for k, s in enumerate(d["stmts"]):
        if s["kind"] in ("subckt", "gate"):
            for j in range(len(s["conns"])):
                if len(s["conns"]) > 1:
                    c = copy.deepcopy(d)
                    del c["stmts"][k]["conns"][j]
                    if any(x[2] != "unconn" for x in c["stmts"][k]["conns"]):
                        yield c
        if s["kind"] == "names" and s["ins"]:
            c = copy.deepcopy(d)
            c["stmts"][k]["ins"] = s["ins"][:-1]
            n = len(c["stmts"][k]["ins"])
            c["stmts"][k]["covers"] = [] if not s["covers"] else [("1" * n + " 1") if n else "1"]
            yield c
        for key in ("attrs", "params"):
            if s.get(key):
                c = copy.deepcopy(d)
                c["stmts"][k][key] = {}
                yield c
        if "cname" in s:
            c = copy.deepcopy(d)
            del c["stmts"][k]["cname"]
            yield c


CANDIDATES = {"v": verilog_candidates, "edf": edif_candidates, "eblif": eblif_candidates}
PLAIN_RENDER = {"v": {"ws": "plain", "comment_rate": 0.0, "wire_kw": "wire", "group_decls": False, "defparam": False, "split_attrs": False},
                "edf": {"ws": "plain", "comment_rate": 0.0, "kwcase": "lower", "refcase": False, "design_refcase": False},
                "eblif": {"comment_rate": 0.0, "continuations": False}}


def reduce_event(ev, test, budget):
    """Greedy descent over design candidates of one fs_put event.  test(event) -> bool.  Returns the event."""
    fmt = ev.get("fmt")
    if fmt not in CANDIDATES or "design" not in ev or "render_seed" not in ev:
        return ev, 0
    accepted = 0
    improved = True
    while improved and not budget():
        improved = False
        for cand in CANDIDATES[fmt](ev["design"]):
            if budget():
                break
            try:
                text = render(fmt, cand, ev["render_seed"], ev.get("render"))
            except Exception:
                continue      # a candidate the independent writer cannot write is not a design
            e2 = dict(ev, design=cand, text=text)
            if test(e2):
                ev = e2
                accepted += 1
                improved = True
                break
    for key, val in (PLAIN_RENDER.get(fmt) or {}).items():
        # one rendering freedom at a time back to its plainest setting
        rc = dict(ev.get("render") or {})
        if rc.get(key) == val or budget():
            continue
        rc[key] = val
        try:
            e2 = dict(ev, render=rc, text=render(fmt, ev["design"], ev["render_seed"], rc))
        except Exception:
            continue
        if test(e2):
            ev = e2
            accepted += 1
    return ev, accepted
