"""Run one simulated process lifetime: workload -> real API -> oracles -> log.

A property check is a subclass of ``Prop``.  ``run_one`` is a pure function of
(cfg, trace-or-seed, code under test).
"""
import hashlib
import json

from .rng import Streams, derive
from .world import World, HarnessError
from .violation import Violation
from .model import fingerprint
from . import oplang


class Prop:
    id = "C00"
    title = ""
    engine = "iredit"
    level = "exploration"
    fit = "A"
    rule = ""
    relevant_ops = None       # ops that make a run non-trivial for this property (None = any API op)
    components_real = []
    components_stub = []
    assumptions = []
    known = frozenset()   # signatures of open findings (set by the runner)
    runs = {"quick": 4000, "thorough": 100000}
    budget_s = {"quick": 60.0, "thorough": 600.0}
    shrink_s = {"quick": 20.0, "thorough": 40.0}
    chunk = 100           # runs per worker job
    chunk_wall = 600      # wall backstop per job (faulthandler kills the worker)
    fp_mode = "final"     # or "history": see run_events
    run_wall = 60         # wall backstop per run (raises a harness error, never a violation)

    # ---- per-run configuration (JSON-able; stored in replay files) -------------
    def configure(self, rng, tier):
        raise NotImplementedError

    # ---- hooks used by the event-loop engines ---------------------------------
    def start(self, w, cfg):
        pass

    def before(self, w, ev):
        return None

    def after(self, w, ev, outcome, pre):
        pass

    def finish(self, w, cfg):
        pass

    def make_gen(self, w, rng, cfg):
        from .gen_iredit import Gen
        return Gen(w, rng, cfg)

    # whole-run override for non event-loop engines
    def run(self, w, cfg, streams, trace):
        return run_events(self, w, cfg, streams, trace)


class RunResult:
    __slots__ = ("trace", "violation", "digest", "n_events", "final_fp", "stats", "kinds", "cfg",
                 "states", "nontrivial", "extra")

    def __init__(self):
        self.trace = []
        self.violation = None
        self.digest = ""
        self.n_events = 0
        self.final_fp = 0
        self.stats = {}
        self.kinds = {}
        self.cfg = None
        self.states = set()
        self.nontrivial = False
        self.extra = {}


def apply_world_cfg(w, cfg):
    w.reset(hash_seed=cfg.get("hash_seed", 0), hash_mode=cfg.get("hash_mode", "prng"))
    if cfg.get("lookup_cache", True) is False:
        w.lookup_cache(False)
    if cfg.get("policy_start", "DEFAULT") != "DEFAULT":
        w.set_policy(cfg["policy_start"])
    cs = cfg.get("counters_start")
    if cs:
        w.set_counters(**cs)


ENV_OPS = {"gc", "policy", "listener_add", "listener_remove", "restart", "clock_jump", "hold_opin"}


def run_events(prop, w, cfg, streams, trace=None):
    """Event-loop engine shared by the history properties."""
    res = RunResult()
    res.cfg = cfg
    apply_world_cfg(w, cfg)
    prop.start(w, cfg)
    gen = None
    if trace is None:
        gen = prop.make_gen(w, streams["workload"], cfg)
        nsteps = cfg["steps"]
    else:
        nsteps = len(trace)
    hasher = hashlib.blake2b(digest_size=16)
    track_states = cfg.get("track_states", False)
    rel = prop.relevant_ops
    for step in range(nsteps):
        if gen is not None:
            ev = gen.next()
            if ev is None:
                break
            ev = {k: v for k, v in ev.items() if v is not None or k in ("x", "v")}
            ev["i"] = step
        else:
            ev = dict(trace[step])
            ev.pop("res", None)
            ev.pop("out", None)
        try:
            pre = prop.before(w, ev)
            outcome, outs = oplang.execute(w, ev)
            rec = dict(ev)
            rec["res"] = outcome
            if outs:
                rec["out"] = ["e%d.%d" % (ev["i"], k) for k in range(len(outs))]
            res.trace.append(rec)
            if outcome != "skipped":
                res.n_events += 1
                res.kinds[ev["op"]] = res.kinds.get(ev["op"], 0) + 1
                w.count("outcome." + outcome)
                if ev["op"] not in ENV_OPS and (rel is None or ev["op"] in rel):
                    res.nontrivial = True
            prop.after(w, ev, outcome, pre)
        except Violation as v:
            res.violation = v
            break
        fp, nobj = fingerprint(w.roots())
        hasher.update(("%d|%s|%s|%x|%d\n" % (ev["i"], ev["op"], outcome, fp, nobj)).encode())
        if prop.fp_mode == "history":
            # properties that let intermediate results go: the "final state" is the sequence of states passed
            res.final_fp = derive(res.final_fp, fp, nobj)
        else:
            res.final_fp = fp
        if track_states:
            res.states.add(fp)
    if res.violation is None:
        try:
            prop.finish(w, cfg)
        except Violation as v:
            res.violation = v
    if res.violation is not None:
        hasher.update(res.violation.signature.encode())
    res.digest = hasher.hexdigest()
    res.stats = dict(w.stats)
    return res


def make_cfg(prop, verif_seed, index, tier):
    from .rng import run_seed
    rs = run_seed(verif_seed, prop.id, index)
    streams = Streams(rs)
    cfg = prop.configure(streams["swarm"], tier)
    cfg["hash_seed"] = derive(rs, "hash")
    cfg["run_seed"] = rs
    cfg["run_index"] = index
    return cfg, streams


def run_one(prop, w, verif_seed, index, tier, track_states=False):
    cfg, streams = make_cfg(prop, verif_seed, index, tier)
    if track_states:
        cfg["track_states"] = True
    return prop.run(w, cfg, streams, None)


def replay(prop, w, cfg, trace):
    cfg = dict(cfg)
    streams = Streams(cfg.get("run_seed", 0))
    return prop.run(w, cfg, streams, trace)


def kinds_key(kinds):
    return derive(tuple(sorted(kinds.items())))
