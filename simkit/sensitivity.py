"""Sensitivity self-test: every recorded change to spydrnet must make its check fail, harmless ones must not.

Sources of known-bad trees:
  * seeded/<name>/patch.diff  (independently written changes, meta.json names the property and checks)
  * mutants/*.patch           (reverted fix commits and hand-written mutants; the file name starts with the property)
Each patch is applied to a scratch copy of the repository's source under a fresh mkdtemp (outside /repo and /verif),
the property's quick command is run with VERIF_REPO pointing there, and the copy is removed.
"""
import glob
import json
import os
import shutil
import subprocess
import tempfile

HOME = os.environ.get("VERIF_HOME", "/verif")
REPO = "/repo"


def run_patch(patch, prop, runs=None):
    d = tempfile.mkdtemp(prefix="mut.", dir="/tmp")
    try:
        shutil.copytree(os.path.join(REPO, "spydrnet"), os.path.join(d, "spydrnet"))
        os.symlink(os.path.join(REPO, "example_netlists"), os.path.join(d, "example_netlists"))
        r = subprocess.run(["patch", "-p1", "-s", "-i", patch], cwd=d, capture_output=True, text=True)
        if r.returncode != 0:
            return "patch-failed", r.stdout + r.stderr
        ev = os.path.join(HOME, "evidence", prop + ".json")
        bak = ev + ".senskeep"
        if os.path.exists(ev):
            shutil.copy(ev, bak)
        env = dict(os.environ, VERIF_REPO=d, PATH="/usr/bin:/bin")
        if "revert" in os.path.basename(patch):
            env["VERIF_NO_WITNESS"] = "1"   # the witness of the reverted fix would find it at once: search must
        cmd = [os.path.join(HOME, "check"), "run", prop, "--tier", "quick"] + (["--runs", str(runs)] if runs else [])
        r = subprocess.run(cmd, capture_output=True, text=True, env=env, cwd=HOME)
        if os.path.exists(bak):
            shutil.move(bak, ev)
        line = [l for l in r.stdout.split("\n") if l.startswith("  C") or l.startswith("VIOLATION")]
        return ("caught" if r.returncode == 1 else ("harness" if r.returncode == 2 else "missed")), " | ".join(line[:2])
    finally:
        shutil.rmtree(d, ignore_errors=True)


def main(argv, seed):
    only = set(argv)
    jobs = []
    for meta in sorted(glob.glob(os.path.join(HOME, "seeded", "*", "meta.json"))):
        m = json.load(open(meta))
        for c in m.get("checks", {m["property"]: None}):
            # (a change written against one property whose subject is another property's: the meta says which check is
            # not expected to see it, and why, under "out_of_scope")
            want = "missed" if c in m.get("out_of_scope", {}) else "caught"
            jobs.append((os.path.join(os.path.dirname(meta), "patch.diff"), c, "seeded/" + m["name"], want))
    for p in sorted(glob.glob(os.path.join(HOME, "mutants", "*.patch"))):
        base = os.path.basename(p)
        jobs.append((p, base[:3], "mutants/" + base, "missed" if "harmless" in base else "caught"))
    bad = 0
    table = []
    for patch, prop, name, want in jobs:
        if only and prop not in only and name not in only:
            continue
        got, info = run_patch(patch, prop)
        runs = "quick"
        if got == "missed" and want == "caught":
            # not every past finding is within reach of the quick budget: escalate once to a deeper search
            os.environ["VERIF_BUDGET_S"] = "300"
            got, info = run_patch(patch, prop, runs=60000)
            os.environ.pop("VERIF_BUDGET_S")
            runs = "60000 runs / 300 s"
        ok = got == want
        bad += 0 if ok else 1
        table.append({"change": name, "check": prop, "expected": want, "observed": got, "depth": runs, "detail": info})
        print("%-5s %-45s %s expected=%s observed=%s (%s) %s" % ("ok" if ok else "FAIL", name, prop, want, got, runs, info[:110]),
              flush=True)
    os.makedirs(os.path.join(HOME, "selftest"), exist_ok=True)
    json.dump(table, open(os.path.join(HOME, "selftest", "sensitivity.json"), "w"), indent=1)
    print("sensitivity: %d changes, %d not as expected" % (len(table), bad))
    return 1 if bad else 0
