"""Minimise a failing trace while the same violation signature persists (ddmin)."""
import time

from .engine import replay


def _same(prop, w, cfg, trace, sig):
    try:
        r = replay(prop, w, cfg, trace)
    except Exception:
        return False
    return r.violation is not None and r.violation.signature == sig


def ddmin(items, test, budget):
    n = 2
    while len(items) >= 2:
        chunk = max(1, len(items) // n)
        subsets = [items[i:i + chunk] for i in range(0, len(items), chunk)]
        reduced = False
        for i in range(len(subsets)):
            if budget():
                return items
            comp = [x for j, s in enumerate(subsets) if j != i for x in s]
            if comp and test(comp):
                items = comp
                n = max(n - 1, 2)
                reduced = True
                break
        if not reduced:
            if n >= len(items):
                break
            n = min(len(items), n * 2)
    return items


def shrink(prop, w, cfg, trace, sig, max_s=25.0, max_tests=1500):
    """Return (cfg, trace) minimised.  Every candidate is run against the real code."""
    t0 = time.time()
    tests = [0]

    def budget():
        return time.time() - t0 > max_s or tests[0] > max_tests

    cfg = dict(cfg)
    trace = [dict(e) for e in trace]
    if not _same(prop, w, cfg, trace, sig):
        return cfg, trace, {"shrunk": False, "reason": "not reproducible in-process"}

    def test(tr):
        tests[0] += 1
        return _same(prop, w, cfg, tr, sig)

    # 1. cut everything after the violating event, then ddmin over events
    trace = ddmin(trace, test, budget)
    # 2. switch seams off one at a time
    for key, val in (("hash_mode", "counter"), ("lookup_cache", True), ("policy_start", "DEFAULT")):
        if cfg.get(key) != val and not budget():
            c2 = dict(cfg)
            c2[key] = val
            tests[0] += 1
            if _same(prop, w, c2, trace, sig):
                cfg = c2
    # 3. simplify arguments
    for idx in range(len(trace)):
        if budget():
            break
        e = trace[idx]
        for key, simple in (("position", None), ("props", None), ("as_set", False), ("pins", 1), ("wires", 1),
                            ("is_downto", None), ("is_scalar", None), ("lower_index", None), ("direction", None)):
            if key in e and e[key] != simple:
                e2 = dict(e)
                if simple is None:
                    e2.pop(key)
                else:
                    e2[key] = simple
                cand = trace[:idx] + [e2] + trace[idx + 1:]
                tests[0] += 1
                if _same(prop, w, cfg, cand, sig):
                    trace = cand
                    e = e2
    trace = ddmin(trace, test, budget)
    # 4. a generated text is one event: reduce the abstract design behind it and render it again
    reduced = 0
    for idx in range(len(trace)):
        if trace[idx].get("op") == "fs_put" and "design" in trace[idx] and not budget():
            from .design_shrink import reduce_event

            def test_ev(e2, idx=idx):
                tests[0] += 1
                return _same(prop, w, cfg, trace[:idx] + [e2] + trace[idx + 1:], sig)
            trace[idx], k = reduce_event(trace[idx], test_ev, budget)
            reduced += k
    info = {"shrunk": True, "tests": tests[0], "seconds": round(time.time() - t0, 2)}
    if reduced:
        info["design_reductions"] = reduced
    return cfg, trace, info
