"""Reading the real object graph through the plain accessors only.

scan()        - closure of everything reachable from the given roots
fingerprint() - order-stable 64-bit hash of that closure (event log digest)
snapshot()    - identity-level value for before/after comparison (C14, C16, C07)
"""
import hashlib
from copy import deepcopy

from .world import kind_of


def _neighbours(o, k):
    if k == "netlist":
        yield from o.libraries
        if o.top_instance is not None:
            yield o.top_instance
    elif k == "library":
        if o.netlist is not None:
            yield o.netlist
        yield from o.definitions
    elif k == "definition":
        if o.library is not None:
            yield o.library
        yield from o.ports
        yield from o.cables
        yield from o.children
        yield from sorted(o.references, key=hash)
    elif k == "port":
        if o.definition is not None:
            yield o.definition
        yield from o.pins
    elif k == "cable":
        if o.definition is not None:
            yield o.definition
        yield from o.wires
    elif k == "instance":
        if o.parent is not None:
            yield o.parent
        if o.reference is not None:
            yield o.reference
        for ip, op in list(o.pins.items()):  # keys and values of the public mapping
            yield ip
            yield op
    elif k == "ipin":
        if o.port is not None:
            yield o.port
        if o.wire is not None:
            yield o.wire
    elif k == "opin":
        if o.instance is not None:
            yield o.instance
        if o.inner_pin is not None:
            yield o.inner_pin
        if o.wire is not None:
            yield o.wire
    elif k == "wire":
        if o.cable is not None:
            yield o.cable
        yield from o.pins


def scan(roots):
    """Return the list of reachable IR objects in deterministic discovery order."""
    seen = {}
    out = []
    stack = []
    for r in roots:
        if r is None or id(r) in seen:
            continue
        seen[id(r)] = len(out)
        out.append(r)
        stack.append(r)
        while stack:
            o = stack.pop()
            for n in _neighbours(o, kind_of(o)):
                if id(n) not in seen:
                    if kind_of(n) is None:
                        continue
                    seen[id(n)] = len(out)
                    out.append(n)
                    stack.append(n)
    return out, seen


def _data_items(o):
    return tuple(sorted((k, repr(v)) for k, v in o.data.items()))


def record(o, ref):
    """Field tuple of one object; ``ref`` maps an object to a stable token."""
    k = kind_of(o)
    if k == "netlist":
        return (k, tuple(ref(x) for x in o.libraries), ref(o.top_instance), _data_items(o))
    if k == "library":
        return (k, ref(o.netlist), tuple(ref(x) for x in o.definitions), _data_items(o))
    if k == "definition":
        return (k, ref(o.library), tuple(ref(x) for x in o.ports), tuple(ref(x) for x in o.cables),
                tuple(ref(x) for x in o.children), frozenset(ref(x) for x in o.references), _data_items(o))
    if k == "port":
        return (k, ref(o.definition), tuple(ref(x) for x in o.pins), o.direction.name,
                bool(o.is_downto), bool(getattr(o, "_is_scalar", o.is_scalar)), o.lower_index, _data_items(o))
    if k == "cable":
        return (k, ref(o.definition), tuple(ref(x) for x in o.wires),
                bool(o.is_downto), bool(getattr(o, "_is_scalar", o.is_scalar)), o.lower_index, _data_items(o))
    if k == "instance":
        return (k, ref(o.parent), ref(o.reference), tuple((ref(a), ref(b)) for a, b in o.pins.items()),
                bool(o.is_top_instance), _data_items(o))
    if k == "ipin":
        return (k, ref(o.port), ref(o.wire))
    if k == "opin":
        return (k, ref(o.instance), ref(o.inner_pin), ref(o.wire))
    if k == "wire":
        return (k, ref(o.cable), tuple(ref(x) for x in o.pins))
    return (k,)


FIELDS = {
    "netlist": ("kind", "libraries", "top_instance", "data"),
    "library": ("kind", "netlist", "definitions", "data"),
    "definition": ("kind", "library", "ports", "cables", "children", "references", "data"),
    "port": ("kind", "definition", "pins", "direction", "is_downto", "is_scalar", "lower_index", "data"),
    "cable": ("kind", "definition", "wires", "is_downto", "is_scalar", "lower_index", "data"),
    "instance": ("kind", "parent", "reference", "pins", "is_top_instance", "data"),
    "ipin": ("kind", "port", "wire"),
    "opin": ("kind", "instance", "inner_pin", "wire"),
    "wire": ("kind", "cable", "pins"),
}


def fingerprint(roots):
    objs, seen = scan(roots)

    def ref(x):
        if x is None:
            return -1
        return seen.get(id(x), -2)

    h = hashlib.blake2b(digest_size=8)
    for o in objs:
        h.update(repr(_stable(record(o, ref))).encode())
    return int.from_bytes(h.digest(), "big"), len(objs)


def _stable(rec):
    # frozensets of ints print in hash order of ints (deterministic), but sort anyway
    return tuple(tuple(sorted(x)) if isinstance(x, frozenset) else x for x in rec)


class Snapshot:
    """Identity-level value of the closure of ``roots``; compared with diff()."""

    def __init__(self, roots):
        self.objs, _ = scan(roots)  # holds the objects alive, so ids stay unique

        def ref(x):
            return None if x is None else id(x)

        self.rec = {id(o): record(o, ref) for o in self.objs}
        self.kinds = {id(o): kind_of(o) for o in self.objs}
        self.byid = {id(o): o for o in self.objs}

    def diff(self, other):
        """First difference as (object, field name, before, after) or None."""
        for o in self.objs:
            i = id(o)
            a = self.rec[i]
            b = other.rec.get(i)
            if b is None:
                return (o, "reachable", "yes", "no")
            if a != b:
                names = FIELDS[self.kinds[i]]
                for n, x, y in zip(names, a, b):
                    if x != y:
                        return (o, n, x, y)
        for o in other.objs:
            if id(o) not in self.rec:
                return (o, "reachable", "no", "yes")
        return None
