class Violation(Exception):
    """An oracle found the property broken.  signature = clause@discriminator."""

    def __init__(self, clause, disc="", detail=""):
        super().__init__("%s@%s: %s" % (clause, disc, detail))
        self.clause = clause
        self.disc = disc
        self.detail = detail

    @property
    def signature(self):
        return "%s@%s" % (self.clause, self.disc)

    def to_json(self):
        return {"clause": self.clause, "signature": self.signature, "detail": self.detail}


class Veto(Exception):
    """Raised on purpose by a simulator-owned listener (fault F6)."""
