"""Hierarchical design generator (DESIGN 4.2).

A design is a *history*: a list of iredit events in their valid forms, so it is
executed, logged, replayed and shrunk exactly like any other trace.  Handle
names are known statically (event i yields e<i>.<k>).
"""

LEAF_NAMES = ["LUT", "FF", "BUF", "INV", "AND2"]


def hier_config(rng, **over):
    cfg = {
        "depth": rng.choice([1, 2, 2, 3, 3, 4]),
        "n_libs": rng.choice([1, 1, 2, 3]),
        "n_leaf": rng.choice([1, 2, 3]),
        "n_mid": rng.choice([1, 2, 3]),
        "max_children": rng.choice([2, 3, 4]),
        "max_ports": rng.choice([1, 2, 3]),
        "max_cables": rng.choice([1, 2, 3, 4]),
        "max_width": rng.choice([1, 1, 2, 3]),
        "share": rng.choice([0.0, 0.3, 0.6, 0.9]),
        "connect_rate": rng.choice([0.3, 0.6, 0.9]),
        "wire_only": rng.random() < 0.4,
        "passthrough": rng.random() < 0.5,
        "extra_unreachable": rng.random() < 0.4,
        "orphan_instance": rng.random() < 0.3,
        "lsb": rng.choice([0, 0, 1, -2, 5]),
        "unnamed": 0.0,
        "name_style": rng.choice(["unique", "unique", "scoped"]),
        "array_rate": rng.choice([0.0, 0.3]),
    }
    cfg.update(over)
    return cfg


class Builder:
    """Emits events and remembers the handles they will produce."""

    def __init__(self, rng, cfg, start=0):
        self.r = rng
        self.c = cfg
        self.ev = []
        self.i = start
        self.defs = []     # records: dict(h, lib, level, ports=[(h,[pin handles],dir)], leaf=bool, name)
        self.uid = 0

    def emit(self, e):
        e = {k: v for k, v in e.items() if v is not None}
        e["i"] = self.i
        self.ev.append(e)
        self.i += 1
        return e["i"]

    SCOPED = {"p": ["a", "b", "d", "q", "y", "data", "clk"], "n": ["data", "d", "n", "q", "bus", "clk", "y"],
              "u": ["u", "inst", "g", "b"]}

    def nm(self, prefix, scope=None):
        nm = self._nm(prefix, scope)
        if nm is not None and prefix in ("p", "n", "u") and self.c.get("empty_name_rate") \
                and self.r.random() < self.c["empty_name_rate"]:
            # the empty string is a name like any other (stored, unique in its scope, found by lookups): one port,
            # cable or instance per scope may carry it
            used = self.__dict__.setdefault("empty_issued", set())
            if (scope, prefix) not in used:
                used.add((scope, prefix))
                return ""
        if self.c.get("case_twin_rate") and nm is not None:
            # siblings whose names differ only in letter case ("u1" and "U1"): distinct under the default policy
            issued = self.__dict__.setdefault("case_issued", {}).setdefault(
                (scope, prefix if prefix in ("p", "n", "u") else "def"), [])
            if issued and self.r.random() < self.c["case_twin_rate"]:
                tw = self.r.choice(issued).swapcase()
                if tw not in issued:
                    nm = tw
            issued.append(nm)
        if nm is not None and self.c.get("long_name_rate") and self.r.random() < self.c["long_name_rate"]:
            # a name at the identifier length limit of EDIF (255): the unique part goes in front
            nm = (nm + "_" + "L" * 300)[:self.r.choice([250, 253, 255, 256, 260])]
        if nm is not None and prefix in ("u", "n") and self.c.get("slash_rate") and self.r.random() < self.c["slash_rate"]:
            # the hierarchy separator inside a name (escaped Verilog identifiers and EDIF renames produce these)
            nm = self.r.choice(["/" + nm, nm + "/", nm + "/x", "a/" + nm])
        return nm

    def _nm(self, prefix, scope=None):
        self.uid += 1
        if self.c["unnamed"] and self.r.random() < self.c["unnamed"]:
            return None
        style = self.c.get("name_style", "unique")
        if style == "scoped" and scope is not None and prefix in self.SCOPED:
            # the way real designs are named: the same few port, net and instance names in every cell,
            # unique only among their siblings (a net may carry the name of a port)
            used = self.__dict__.setdefault("scoped_used", {}).setdefault((scope, prefix), set())
            for k in range(50):
                nm = self.r.choice(self.SCOPED[prefix]) + ("" if k < 2 and self.r.random() < 0.6 else str(self.r.randint(0, 3 + k)))
                if self.c.get("scoped_case") and self.r.random() < self.c["scoped_case"]:
                    nm = nm.upper()    # the same few names in every cell, not always in the same letter case
                if nm not in used:
                    used.add(nm)
                    return nm
            return "%s%d" % (prefix, self.uid)
        if style in ("unique", "scoped"):
            return "%s%d" % (prefix, self.uid)
        pool = self.c.get("name_pool")
        nm = "%s%s" % (self.r.choice(pool), self.uid if self.r.random() < 0.5 else "")
        if prefix == "n":
            import re
            if re.search(r"\[\d+\]$", nm) or re.search(r"_\d+_$", nm):
                nm += "x"  # stem[3] / stem_3_ spell "bit 3 of bus stem" in EDIF: not a name for a whole cable
        if self.c.get("unique_names", True):
            # siblings must be accepted by the naming rules (names unique as written; under the EDIF policy
            # nothing else is demanded of names), so never hand out the same string twice
            used = self.__dict__.setdefault("used_names", set())
            if nm in used:
                nm = "%s%d" % (nm, self.uid)
            used.add(nm)
        return nm

    def pp(self, base=None):
        """Optional data for a new element: an EDIF identifier and/or a user key (C13, C17)."""
        c, r = self.c, self.r
        d = dict(base) if base else {}
        if c.get("ident_rate") and r.random() < c["ident_rate"]:
            self.uid += 1
            if c.get("unique_idents", True):
                # a user-supplied identifier is taken as it is by the EDIF writer: it has to be legal and
                # unique (ignoring case) among its siblings for the netlist to be EDIF-expressible
                d["EDIF.identifier"] = "%s%d" % (r.choice(["a", "A", "ab", "aB", "x", "X"]), self.uid)
            else:
                d["EDIF.identifier"] = "%s%s" % (r.choice(["a", "A", "ab", "aB", "x", "X"]),
                                                 self.uid if r.random() < 0.6 else "")
        if c.get("userkey_rate") and r.random() < c["userkey_rate"]:
            d["k"] = r.choice(["v", "V", "w", "vw"])
        return d or None

    def lib_for(self, level):
        """Library of a definition of the given level; with acyclic_libs lower levels never sit above."""
        libs = self.libs
        if not self.c.get("acyclic_libs"):
            return self.r.choice(libs)
        top = self.c["depth"]
        hi = min(len(libs) - 1, (level * len(libs)) // (top + 1))
        return libs[hi]

    def width(self):
        return self.r.randint(1, self.c["max_width"])

    def make_ports(self, d, n, leaf):
        ports = []
        for _ in range(n):
            wdt = self.width()
            arr = wdt > 1 or self.r.random() < self.c["array_rate"]
            e = {"op": "create_port", "on": d, "name": self.nm("p", d), "pins": wdt, "props": self.pp(),
                 "direction": self.r.choice(["in", "out", "inout", "in", "out"])}
            if self.c.get("undef_dir_rate") and self.r.random() < self.c["undef_dir_rate"]:
                e["direction"] = "undef"   # a port whose direction was never given
            if arr:
                e["is_scalar"] = False
                if self.c["lsb"]:
                    e["lower_index"] = self.c["lsb"]
            i = self.emit(e)
            ports.append(("e%d.0" % i, ["e%d.%d" % (i, k + 1) for k in range(wdt)]))
        return ports

    def build(self):
        r, c = self.r, self.c
        n = self.emit({"op": "netlist_new", "name": "design"})
        self.netlist = "e%d.0" % n
        libs = []
        for k in range(c["n_libs"]):
            i = self.emit({"op": "create_library", "on": self.netlist, "name": "lib%d" % k, "props": self.pp()})
            libs.append("e%d.0" % i)
        self.libs = libs
        # level 0: leaves (ports only)
        for k in range(c["n_leaf"]):
            lib = self.lib_for(0)
            i = self.emit({"op": "create_definition", "on": lib, "name": self.nm(r.choice(LEAF_NAMES)), "props": self.pp()})
            d = "e%d.0" % i
            ports = self.make_ports(d, r.randint(0 if r.random() < 0.1 else 1, c["max_ports"]), True)
            self.defs.append({"h": d, "level": 0, "ports": ports, "leaf": True, "libh": lib})
        if c.get("twin_defs") and len(libs) > 1 and self.defs:
            # definition names are unique per library only: the same name (and the same ports) in another library
            src = r.choice(self.defs)
            others = [l for l in libs if l != src["libh"]]
            if others:
                lib2 = others[0] if c.get("acyclic_libs") else r.choice(others)
                nm_ = [e for e in self.ev if e.get("op") == "create_definition" and "e%d.0" % e["i"] == src["h"]][0].get("name")
                i = self.emit({"op": "create_definition", "on": lib2, "name": nm_})
                d2 = "e%d.0" % i
                ports2 = []
                for ph, pins in src["ports"]:
                    pe = dict([e for e in self.ev if e.get("op") == "create_port" and "e%d.0" % e["i"] == ph][0])
                    pe.pop("i", None)
                    pe["on"] = d2
                    pe.pop("props", None)
                    k = self.emit(pe)
                    ports2.append(("e%d.0" % k, ["e%d.%d" % (k, j + 1) for j in range(len(pins))]))
                # (not offered as a child to later cells: with acyclic_libs a use from a lower library would close a
                # cycle of library dependencies; it is there to be found by name and to be re-pointed to)
                self.twins = [{"h": d2, "level": 0, "ports": ports2, "leaf": True, "libh": lib2, "twin_of": src["h"]}]
        if c["wire_only"]:
            lib = self.lib_for(0)
            i = self.emit({"op": "create_definition", "on": lib, "name": self.nm("wireonly")})
            d = "e%d.0" % i
            ports = self.make_ports(d, r.randint(1, max(2, c["max_ports"])), False)
            rec = {"h": d, "level": 0, "ports": ports, "leaf": False, "libh": lib}
            self.body(rec, allow_children=False)
            self.defs.append(rec)
        # intermediate levels
        for level in range(1, c["depth"]):
            for k in range(r.randint(1, c["n_mid"])):
                lib = self.lib_for(level)
                nm = self.nm("mod")
                prev = [x for x in self.defs if x.get("name") and not x["leaf"] and x.get("lib") == lib]
                if prev and r.random() < c.get("uniq_names", 0.0):
                    # a name that a previous run of uniquify (in another process) could have produced
                    nm = "%s_sdn_unique_%d" % (r.choice(prev)["name"], r.randint(0, 3))
                    if any(x.get("name") == nm for x in self.defs):
                        nm = self.nm("mod")
                i = self.emit({"op": "create_definition", "on": lib, "name": nm, "props": self.pp()})
                d = "e%d.0" % i
                ports = self.make_ports(d, r.randint(0 if r.random() < 0.15 else 1, c["max_ports"]), False)
                rec = {"h": d, "level": level, "ports": ports, "leaf": False, "name": nm, "lib": lib, "libh": lib}
                self.body(rec)
                self.defs.append(rec)
        # top
        lib = self.lib_for(c["depth"])
        i = self.emit({"op": "create_definition", "on": lib, "name": self.nm("top")})
        d = "e%d.0" % i
        ports = self.make_ports(d, r.randint(0, c["max_ports"]), False)
        rec = {"h": d, "level": c["depth"], "ports": ports, "leaf": False, "libh": lib}
        self.body(rec, prefer_high=True)
        self.defs.append(rec)
        self.topdef = d
        if c["extra_unreachable"]:
            ulib = self.lib_for(c["depth"])
            i = self.emit({"op": "create_definition", "on": ulib, "name": self.nm("unused")})
            rec2 = {"h": "e%d.0" % i, "level": c["depth"], "ports": [], "leaf": False, "libh": ulib}
            self.body(rec2)
            self.extra_defs = [rec2]
        if c.get("late_pins"):
            # widen an earlier port of a definition that already has instances: the instances then hold their
            # outer pins in an order that is not the declaration order of the ports
            for rec3 in self.defs:
                if len(rec3["ports"]) >= 2 and rec3["h"] != d and r.random() < c["late_pins"]:
                    ph, pins = r.choice(rec3["ports"][:-1])
                    for _ in range(r.choice([1, 1, 2])):
                        k = self.emit({"op": "create_pin", "on": ph})
                        pins.append("e%d.0" % k)
        if c.get("late_permute"):
            # the pins INSIDE a port of a definition that already has (wired) instances change places, or a pin is put in
            # front: the instances hold their outer pins in the old order, the port lists them in the new one
            for rec3 in self.defs:
                if rec3["h"] == d or r.random() >= c["late_permute"]:
                    continue
                wide = [(ph, pins) for ph, pins in rec3["ports"] if len(pins) >= 2]
                if wide and r.random() < 0.7:
                    ph, pins = r.choice(wide)
                    k = r.randrange(1, len(pins))
                    pins[:] = pins[k:] + pins[:k] if r.random() < 0.6 else list(reversed(pins))
                    self.emit({"op": "set_pins", "on": ph, "xs": list(pins)})
                elif rec3["ports"]:
                    ph, pins = r.choice(rec3["ports"])
                    k = self.emit({"op": "ipin_new"})
                    self.emit({"op": "add_pin", "on": ph, "x": "e%d.0" % k, "position": 0})
                    pins.insert(0, "e%d.0" % k)
        i = self.emit({"op": "set_top", "on": self.netlist, "x": d})
        self.top = "e%d.0" % i
        if c.get("top_name", True):
            self.emit({"op": "set_name", "on": self.top, "v": "topinst"})
        if c.get("rewrap"):
            # the design gets a new top level afterwards: the former top instance becomes a child of a wrapper
            # cell, its pins are wired there, and a new top instance is installed (by either of the two public ways)
            old_top, top_ports = self.top, rec["ports"]
            wi = self.emit({"op": "create_definition", "on": lib, "name": "wrapper_%d" % self.uid})
            wrap = "e%d.0" % wi
            wires = []
            for ph, pins in top_ports:
                ci = self.emit({"op": "create_cable", "on": wrap, "name": self.nm("n", wrap), "wires": len(pins)})
                wires.append(["e%d.%d" % (ci, k + 1) for k in range(len(pins))])
            self.emit({"op": "add_child", "on": wrap, "x": old_top})
            for (ph, pins), ws in zip(top_ports, wires):
                for pin, wr in zip(pins, ws):
                    if r.random() < 0.85:
                        self.emit({"op": "connect_pin", "on": wr, "pin": {"k": "stored", "i": old_top, "p": pin}})
            if wires and wires[0] and r.random() < 0.7:
                pi = self.emit({"op": "create_port", "on": wrap, "name": self.nm("p", wrap), "pins": 1, "direction": "in"})
                self.emit({"op": "connect_pin", "on": wires[0][0], "pin": {"k": "in", "h": "e%d.1" % pi}})
            ni = self.emit({"op": "instance_new", "name": "newtop"})
            self.emit({"op": "set_reference", "on": "e%d.0" % ni, "x": wrap})
            self.emit({"op": r.choice(["set_top_instance", "set_top"]), "on": self.netlist, "x": "e%d.0" % ni})
            self.top = "e%d.0" % ni
            self.topdef = wrap
            self.defs.append({"h": wrap, "level": c["depth"] + 1, "ports": [], "leaf": False, "libh": lib})
        if c.get("shuffle_order"):
            # declaration order that is not dependency order (the writers must sort)
            ls = list(libs)
            r.shuffle(ls)
            self.emit({"op": "set_libraries", "on": self.netlist, "xs": ls})
            for lib in libs:
                ds = [x["h"] for x in self.defs + getattr(self, "extra_defs", []) + getattr(self, "twins", []) if x.get("libh") == lib]
                if len(ds) > 1:
                    r.shuffle(ds)
                    self.emit({"op": "set_definitions", "on": lib, "xs": ds})
        if c["orphan_instance"] and self.defs:
            t = r.choice(self.defs)
            i = self.emit({"op": "instance_new", "name": self.nm("orphan")})
            self.emit({"op": "set_reference", "on": "e%d.0" % i, "x": t["h"]})
        return self.ev

    def body(self, rec, allow_children=True, prefer_high=False):
        """Cables, children and connections of one non-leaf definition."""
        r, c = self.r, self.c
        d = rec["h"]
        lower = [x for x in self.defs if x["level"] < rec["level"]] if allow_children else []
        kids = []
        if lower:
            nkids = r.randint(1, c["max_children"])
            pool = []
            for _ in range(nkids):
                if pool and r.random() < c["share"]:
                    t = r.choice(pool)
                else:
                    if prefer_high:
                        top_level = max(x["level"] for x in lower)
                        cands = [x for x in lower if x["level"] == top_level] if r.random() < 0.7 else lower
                    else:
                        cands = lower
                    t = r.choice(cands)
                    pool.append(t)
                props = self.pp({"k": "v%d" % self.uid} if c.get("child_props") and r.random() < 0.5 else None)
                if c.get("edif_props") and r.random() < 0.5:
                    props = dict(props or {})
                    plist = []
                    for pk in range(r.randint(1, 3)):
                        val = r.choice(["8'h0F", "hello world", 3, 0, 1, -7, True, False, "a.b/c", "", "50% duty"])
                        pr = {"identifier": "P%d" % pk, "value": val}
                        if c.get("odd_prop_ident") and r.random() < c["odd_prop_ident"]:
                            # a property named through the API with something that is no EDIF identifier
                            pr["identifier"] = r.choice(["LOC.X", "my prop", "1ST", "a[%d]" % pk, "x-y"]) + str(pk)
                        if r.random() < 0.3:
                            pr["original_identifier"] = "p[%d]" % pk
                        plist.append(pr)
                    props["EDIF.properties"] = plist
                if c.get("mixed_meta") and r.random() < 0.5:
                    # metadata of another format on the same instance (a design read from Verilog, annotated, and on its
                    # way to EDIF - or the other way round)
                    props = dict(props or {})
                    props["VERILOG.Parameters"] = dict((k, r.choice(["4'h8", '"grp0"', "1", "16"]))
                                                       for k in r.sample(["INIT", "SOFT_HLUTNM", "P0", "p1", "WIDTH"], r.randint(1, 3)))
                    if r.random() < 0.5:
                        props["VERILOG.InlineConstraints"] = dict((k, r.choice([None, "1", '"true"']))
                                                                  for k in r.sample(["keep", "loc", "DONT_TOUCH"], r.randint(1, 2)))
                i = self.emit({"op": "create_child", "on": d, "name": self.nm("u", d), "ref": t["h"], "props": props})
                kids.append(("e%d.0" % i, t))
        # free endpoints of this definition
        free = []
        for ph, pins in rec["ports"]:
            for q in pins:
                free.append({"k": "in", "h": q})
        for ih, t in kids:
            for ph, pins in t["ports"]:
                for q in pins:
                    free.append({"k": "stored", "i": ih, "p": q})
        r.shuffle(free)
        ncab = r.randint(1, c["max_cables"])
        wires = []
        for _ in range(ncab):
            wdt = self.width()
            e = {"op": "create_cable", "on": d, "name": self.nm("n", d), "wires": wdt, "props": self.pp()}
            if wdt > 1 or r.random() < c["array_rate"]:
                e["is_scalar"] = False
                if c["lsb"]:
                    e["lower_index"] = c["lsb"]
                if c.get("upto_rate") and r.random() < c["upto_rate"]:
                    e["is_downto"] = False     # an ascending range [lo:hi]; wires[0] is bit lo either way
            i = self.emit(e)
            wires.extend("e%d.%d" % (i, k + 1) for k in range(wdt))
        if not wires:
            return
        # passthrough: two port pins on the same wire
        if c["passthrough"] and len(rec["ports"]) >= 2 and r.random() < 0.7:
            a = rec["ports"][0][1][0]
            b = rec["ports"][1][1][0]
            w = wires[0]
            for q in (a, b):
                ref = {"k": "in", "h": q}
                if ref in free:
                    free.remove(ref)
                    self.emit({"op": "connect_pin", "on": w, "pin": ref})
        joined = {}
        for ref in free:
            if r.random() < c["connect_rate"]:
                w = r.choice(wires)
                joined.setdefault(w, []).append(ref)
                if c.get("proxy_rate") and ref["k"] == "stored" and r.random() < c["proxy_rate"]:
                    ref = dict(ref, k="proxy")
                self.emit({"op": "connect_pin", "on": w, "pin": ref})
        if c.get("wire_reorder_rate"):
            # the endpoints of a net are put in another order through the reorder assignment of Wire.pins, the
            # instance pins named by stand-in (instance, inner pin) objects as a caller without the stored pin does
            for w, refs in joined.items():
                if len(refs) >= 2 and r.random() < c["wire_reorder_rate"]:
                    refs = list(refs)
                    r.shuffle(refs)
                    self.emit({"op": "set_wire_pins", "on": w, "pins": [
                        dict(q, k="proxy") if q["k"] == "stored" and r.random() < 0.7 else q for q in refs]})


class ScriptGen:
    """Feeds a prepared event list to the engine, then asks ``more`` for further events."""

    def __init__(self, events, more=None):
        self.events = list(events)
        self.k = 0
        self.more = more

    def next(self):
        if self.k < len(self.events):
            e = self.events[self.k]
            self.k += 1
            return dict(e)
        if self.more is not None:
            return self.more()
        return None
