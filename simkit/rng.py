"""One integer decides everything: named, independent PRNG sub-streams."""
import hashlib
import random


def derive(*parts):
    """Stable 64-bit integer from arbitrary printable parts (no use of hash())."""
    h = hashlib.blake2b(digest_size=8)
    for p in parts:
        h.update(repr(p).encode())
        h.update(b"\0")
    return int.from_bytes(h.digest(), "big")


class Streams:
    """Named sub-streams of one run seed; a draw in one never shifts another."""

    def __init__(self, run_seed):
        self.run_seed = run_seed
        self._s = {}

    def __getitem__(self, name):
        r = self._s.get(name)
        if r is None:
            r = self._s[name] = random.Random(derive(self.run_seed, name))
        return r


def run_seed(verif_seed, prop, index):
    return derive("run", int(verif_seed), prop, int(index))


def weighted(rng, pairs):
    """pairs: list of (item, weight>=0). Deterministic weighted choice."""
    tot = 0.0
    for _, w in pairs:
        tot += w
    x = rng.random() * tot
    acc = 0.0
    for it, w in pairs:
        acc += w
        if x < acc:
            return it
    return pairs[-1][0]
