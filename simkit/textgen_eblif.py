"""Abstract flat designs and an independent BLIF/EBLIF writer (DESIGN 4.3)."""


def ident(r, used, pool="abcdenqxyzABQ"):
    for _ in range(200):
        s = r.choice(pool) + "".join(r.choice("abcxyz019_") for _ in range(r.randint(0, 3)))
        if s not in used and s not in ("unconn",):
            used.add(s)
            return s
    raise RuntimeError("identifier space exhausted")


def gen_design(r, cfg):
    names = set()
    nets = []            # list of (name, idx or None)
    netnames = set()

    def new_net():
        if r.random() < 0.3:
            n = ident(r, netnames)
            if cfg.get("nested_brackets", True) and r.random() < 0.3:
                # bits of a row of a two-dimensional signal "m[1][0]" or of a sliced signal "leds[15:0][3]" (as synthesis
                # tools write them): the cable is named by everything before the LAST bracket group
                n = n + r.choice(["[0]", "[1]", "[3:0]", "[15:0]"])
            w = r.randint(2, 3)
            bits = [(n, i) for i in range(w)]
            nets.extend(bits)
            return r.choice(bits)
        n = ident(r, netnames)
        nets.append((n, None))
        return (n, None)

    d = {"name": ident(r, names), "inputs": [], "outputs": [], "clock": [], "stmts": [], "blackboxes": []}
    pn = netnames
    for key in ("inputs", "outputs"):
        for _ in range(r.randint(1, cfg.get("max_ports", 3))):
            n = ident(r, pn)
            w = r.choice([1, 1, 1, 2, 3])
            d[key].append((n, w))
            for i in range(w):
                nets.append((n, i if w > 1 else None))
    if r.random() < 0.2 and d["inputs"]:
        # a name listed as input and as output is an inout port
        n, w = d["inputs"][0]
        d["outputs"].append((n, w))
    if r.random() < 0.3:
        # one clock, or several on one line in an order that is not the sorted one
        sc = [n for n, w in d["inputs"] if w == 1]
        if len(sc) >= 2 and r.random() < 0.5:
            pick = sorted(r.sample(sc, r.choice([2, 2, len(sc)])), reverse=r.random() < 0.7)
            d["clock"] = pick
        else:
            d["clock"] = [d["inputs"][0][0]] if d["inputs"][0][1] == 1 else []
    bnames = set()
    for _ in range(r.randint(1, cfg.get("max_blackboxes", 3))):
        bb = {"name": ident(r, bnames, "LFDMX"), "inputs": [], "outputs": [],
              "pos": r.choice(["before", "after", "after", "none"])}
        fn = set()
        for _ in range(r.randint(1, 3)):
            bb["inputs"].append((ident(r, fn, "IADSC"), r.choice([1, 1, 1, 2])))
        for _ in range(r.randint(1, 2)):
            bb["outputs"].append((ident(r, fn, "OQYZ"), r.choice([1, 1, 2])))
        d["blackboxes"].append(bb)
    for _ in range(r.randint(2, 4)):
        new_net()
    inames = set()
    for _ in range(r.randint(1, cfg.get("max_stmts", 6))):
        kind = r.choice(["subckt", "subckt", "gate", "names", "names", "latch", "conn"])
        if kind in ("subckt", "gate"):
            bb = r.choice(d["blackboxes"])
            st = {"kind": kind, "model": bb["name"], "conns": []}
            for (fn_, w) in bb["inputs"] + bb["outputs"]:
                for i in range(w):
                    if r.random() < 0.85:
                        x = r.random()
                        if x < 0.1:
                            act = "unconn"
                        elif x < 0.8 or not nets:
                            act = r.choice(nets) if nets and r.random() < 0.8 else new_net()
                        else:
                            act = new_net()
                        st["conns"].append((fn_, i if w > 1 else None, act))
            if not any(c[2] != "unconn" for c in st["conns"]):
                continue
        elif kind == "names":
            k = r.randint(0, 3) if r.random() < 0.9 else r.choice([10, 11, 12, 21])   # (two-digit input indices too)
            ins = [r.choice(nets) if nets and r.random() < 0.8 else new_net() for _ in range(k)]
            out = new_net() if r.random() < 0.7 else r.choice(nets)
            st = {"kind": "names", "ins": ins, "out": out,
                  "covers": r.choice([[("1" * k + " 1") if k else "1"], [("-" * k + " 1") if k else "1"], []])}
        elif kind == "latch":
            st = {"kind": "latch", "input": r.choice(nets) if nets else new_net(), "output": new_net(),
                  "control": (r.choice(nets) if r.random() < 0.5 else None)}
            if st["control"] is None and r.random() < 0.3:
                st["control"] = "unconn"     # .latch in out re unconn 2 : the long form with no clock net
        else:
            if len(nets) < 2:
                continue
            a, b = r.sample(nets, 2)
            st = {"kind": "conn", "a": a, "b": b}
        if kind != "conn":
            if r.random() < 0.5:
                st["cname"] = "u_" + ident(r, inames)   # never the name of a net (cells are named after nets by convention)
            st["attrs"] = dict((ident(r, set(), "kKlL"), r.choice(["1", "true", "X1Y2"])) for _ in range(r.choice([0, 0, 1, 2])))
            st["params"] = dict((ident(r, set(), "PIW"), r.choice(["0000", "16'hEC80", "7"])) for _ in range(r.choice([0, 0, 1])))
        d["stmts"].append(st)
    return d


def tok(net):
    if net == "unconn":
        return "unconn"
    n, i = net
    return n if i is None else "%s[%d]" % (n, i)


def render(d, r, cfg):
    out = []

    def comment():
        if r.random() < cfg.get("comment_rate", 0.15):
            # (a separator line that is nothing but '#', a '#' followed by blanks, a comment with text)
            out.append(r.choice(["# a comment .subckt x y=z", "# a comment .subckt x y=z", "#", "# ", "#\t", "#.end"]))

    def wrap(words):
        """join words, sometimes breaking the line with a continuation"""
        s = ""
        for k, wd in enumerate(words):
            s += wd
            if k < len(words) - 1:
                # a continuation: backslash, optionally blanks (older writers put one), end of line
                s += (" \\" + r.choice(["", "", " ", "  ", "\t"]) + "\n  ") if (
                    cfg.get("continuations", True) and r.random() < 0.1) else " "
        return s

    def bb_text(bb):
        t = [".model " + bb["name"]]
        t.append(wrap([".inputs"] + [("%s[%d]" % (n, i)) if w > 1 else n for n, w in bb["inputs"] for i in range(w)]))
        t.append(wrap([".outputs"] + [("%s[%d]" % (n, i)) if w > 1 else n for n, w in bb["outputs"] for i in range(w)]))
        t.append(".blackbox")
        t.append(".end")
        t.append("")
        return t
    comment()
    used = set(st["model"] for st in d["stmts"] if st["kind"] in ("subckt", "gate"))

    def goes_first(bb):
        # a black box may precede the design only if the design instantiates it: otherwise the first model
        # of the file - by convention the design - would be that black box
        return bb["pos"] == "before" and cfg.get("allow_before", False) and bb["name"] in used
    for bb in d["blackboxes"]:
        if goes_first(bb):
            out.extend(bb_text(bb))
    out.append(".model " + d["name"])
    ins = [("%s[%d]" % (n, i)) if w > 1 else n for n, w in d["inputs"] for i in range(w)]
    outs = [("%s[%d]" % (n, i)) if w > 1 else n for n, w in d["outputs"] for i in range(w)]
    out.append(wrap([".inputs"] + ins))
    out.append(wrap([".outputs"] + outs))
    if d["clock"]:
        out.append(".clock " + " ".join(d["clock"]))
    for st in d["stmts"]:
        comment()
        k = st["kind"]
        if k in ("subckt", "gate"):
            words = ["." + k, st["model"]]
            for fn_, fi, act in st["conns"]:
                words.append("%s=%s" % (fn_ if fi is None else "%s[%d]" % (fn_, fi), tok(act)))
            out.append(wrap(words))
        elif k == "names":
            out.append(wrap([".names"] + [tok(x) for x in st["ins"]] + [tok(st["out"])]))
            out.extend(st["covers"])
        elif k == "latch":
            words = [".latch", tok(st["input"]), tok(st["output"])]
            if st["control"] is not None:
                words += ["re", tok(st["control"]), "2"]
            out.append(" ".join(words))
        else:
            out.append(".conn %s %s" % (tok(st["a"]), tok(st["b"])))
        if k != "conn":
            if "cname" in st:
                out.append(".cname " + st["cname"])
            for a, v in st.get("attrs", {}).items():
                out.append(".attr %s %s" % (a, v))
            for a, v in st.get("params", {}).items():
                out.append(".param %s %s" % (a, v))
    out.append(".end")
    out.append("")
    for bb in d["blackboxes"]:
        if bb["pos"] == "after" or (bb["pos"] == "before" and not goes_first(bb)):
            out.extend(bb_text(bb))
    return "\n".join(out) + "\n"


class UF:
    def __init__(self):
        self.p = {}

    def find(self, x):
        self.p.setdefault(x, x)
        while self.p[x] != x:
            self.p[x] = self.p[self.p[x]]
            x = self.p[x]
        return x

    def union(self, a, b):
        self.p[self.find(a)] = self.find(b)


def norm(net):
    n, i = net
    return (n, 0 if i is None else i)


def expected(d):
    """ports, instances in statement order, and the partition of pins into nets."""
    ports = {}
    for n, w in d["inputs"]:
        ports[n] = ["IN", w]
    for n, w in d["outputs"]:
        if n in ports:
            ports[n][0] = "INOUT"
        else:
            ports[n] = ["OUT", w]
    uf = UF()
    pins = {}

    def attach(net, pin):
        pins.setdefault(uf.find(norm(net)), set())
        pins.setdefault(norm(net), set()).add(pin)
    for n, (dirn, w) in ports.items():
        for i in range(w):
            attach((n, i), ("port", n, i))
    insts = []
    for st in d["stmts"]:
        k = st["kind"]
        if k == "conn":
            uf.union(norm(st["a"]), norm(st["b"]))
            continue
        idx = len(insts)
        rec = {"type": "EBLIF." + k, "cname": st.get("cname"), "attrs": dict(st.get("attrs", {})),
               "params": dict(st.get("params", {}))}
        if k in ("subckt", "gate"):
            rec["model"] = st["model"]
            for fn_, fi, act in st["conns"]:
                if act != "unconn":
                    attach(act, ("inst", idx, fn_, fi or 0))
        elif k == "names":
            rec["model"] = "logic-gate_%d" % len(st["ins"])
            rec["covers"] = [c if " " in c else c + " " for c in st["covers"]]
            for j, x in enumerate(st["ins"]):
                attach(x, ("inst", idx, "in_%d" % j, 0))
            attach(st["out"], ("inst", idx, "out", 0))
        else:
            rec["model"] = "generic-latch"
            attach(st["input"], ("inst", idx, "input", 0))
            attach(st["output"], ("inst", idx, "output", 0))
            if st["control"] is not None and st["control"] != "unconn":
                attach(st["control"], ("inst", idx, "control", 0))
        insts.append(rec)
    groups = {}
    for net, ps in pins.items():
        if ps:
            groups.setdefault(uf.find(net), set()).update(ps)
    part = frozenset(frozenset(g) for g in groups.values() if g)
    return {"top": d["name"], "ports": dict((n, (dirn, w)) for n, (dirn, w) in ports.items()), "insts": insts,
            "partition": part, "clock": list(d["clock"]),
            "blackboxes": dict((bb["name"], bb["pos"] != "none") for bb in d["blackboxes"])}
