"""Workload generator for the IR edit machine (DESIGN 4.1).

Proposes the next public-API event from the live handle table.  Arguments are
always of the documented kind; a per-run ``hostility`` decides how often one
precondition is violated on purpose (fault F11).
"""
from .world import kind_of
from .rng import weighted

NAMES_PLAIN = ["a", "b", "c", "d", "n1", "n2", "x", "y"]
NAMES_COLLIDE = ["a", "A", "b", "B", "ab", "aB", "Ab", "a1", "1a", "&x", "&X", "a-b", "a b", "a_b",
                 "x_sdn_1_", "a[0]", "a/b", "_a", ""]
USER_KEYS = ["k", "EDIF.properties", "VERILOG.x"]
USER_VALUES = ["v", 1, True, ["l", 2], {"d": 1}, {"__tuple__": ["SLICE", [3, 4]]}, {"__tuple__": ["t", 1]}]

DEFAULT_WEIGHTS = {
    "build": 6.0, "attach": 3.0, "remove": 2.5, "bulk_remove": 1.2, "reorder": 1.2,
    "connect": 5.0, "disconnect": 2.0, "bulk_disconnect": 1.0, "reference": 2.0, "top": 0.8,
    "name": 1.5, "data": 1.0, "bundle": 0.6, "orphans": 1.0, "hold": 0.4, "clone": 0.0,
    "gc": 0.3, "policy": 0.0, "ns": 0.1, "chain": 0.3, "adopt": 0.0,
}


def swarm_config(rng, base=None, **over):
    """Per-run knobs (swarm testing: every run explores a different corner)."""
    wts = dict(DEFAULT_WEIGHTS)
    if base:
        wts.update(base)
    # randomly damp a subset of op families so that runs differ in character
    for k in list(wts):
        r = rng.random()
        if r < 0.15:
            wts[k] *= 0.1
        elif r < 0.30:
            wts[k] *= 3.0
    cfg = {
        "weights": wts,
        "hostility": rng.choice([0.05, 0.1, 0.2, 0.35, 0.5]),
        "names": rng.choice(["plain", "collide", "collide", "none"]),
        "name_rate": rng.choice([0.2, 0.6, 0.95]),
        "max_netlists": rng.choice([1, 1, 2]),
        "max_per_parent": rng.choice([2, 3, 4]),
        "max_width": rng.choice([1, 2, 3]),
        "proxy_rate": rng.choice([0.0, 0.2, 0.5]),
        "steps": rng.choice([20, 40, 60, 100, 160]),
        "policy_start": "DEFAULT",
    }
    cfg.update(over)
    return cfg


class Gen:
    def __init__(self, w, rng, cfg):
        self.w = w
        self.r = rng
        self.cfg = cfg
        self.fam = [(k, v) for k, v in sorted(cfg["weights"].items()) if v > 0]

    # -- pool views ------------------------------------------------------------
    def all(self, kind):
        w = self.w
        return [(hd, w.handles[hd]) for hd in w.order if kind_of(w.handles[hd]) == kind]

    def pick(self, items):
        return self.r.choice(items) if items else None

    def hostile(self):
        return self.r.random() < self.cfg["hostility"]

    def name(self):
        mode = self.cfg["names"]
        if mode == "none" or self.r.random() > self.cfg["name_rate"]:
            return None
        return self.r.choice(NAMES_PLAIN if mode == "plain" else NAMES_COLLIDE)

    def props(self):
        if self.r.random() < 0.85:
            return None
        d = {}
        # (reserved keys arrive through properties= as well as through name=: values from the pool the names come from,
        # so that they collide with siblings as often as names do)
        pool = NAMES_COLLIDE if self.cfg.get("names") == "collide" else ["v", "a", "A", "ab"]
        for _ in range(self.r.randint(1, 2)):
            d[self.r.choice(USER_KEYS + ["EDIF.identifier", "EDIF.identifier", ".NAME"])] = self.r.choice(pool)
        return d

    def position(self, n):
        if self.r.random() < 0.6:
            return None
        if self.hostile() and self.r.random() < 0.5:
            # not an index at all (the result of a true division, a string, an int beyond any list), or out of range
            self.w.count("hostile.position")
            return self.r.choice([1.5, float(n), "0", 10 ** 30, -(10 ** 30), -1, n + 7, -(n + 7)])
        return self.r.randint(0, n)

    def hd(self, obj):
        return self.w.handle_of(obj)

    # -- the step ---------------------------------------------------------------
    def next(self):
        q = self.__dict__.setdefault("queue", [])
        if q:
            return q.pop(0)
        if not self.all("netlist"):
            return {"op": "netlist_new", "name": self.name()}
        for _ in range(50):
            fam = weighted(self.r, self.fam)
            ev = getattr(self, "f_" + fam)()
            if ev is not None:
                return ev
        return {"op": "netlist_new", "name": self.name()}

    # -- families ---------------------------------------------------------------
    def f_build(self):
        r = self.r
        cap = self.cfg["max_per_parent"]
        what = weighted(r, [("library", 1), ("definition", 2), ("port", 3), ("cable", 3), ("child", 3),
                            ("pin", 1.5), ("wire", 1.5), ("netlist", 0.3)])
        if what == "netlist":
            if len(self.all("netlist")) >= self.cfg["max_netlists"]:
                return None
            return {"op": "netlist_new", "name": self.name(), "props": self.props()}
        if what == "library":
            p = self.pick([x for x in self.all("netlist") if len(x[1].libraries) < cap])
            return p and {"op": "create_library", "on": p[0], "name": self.name(), "props": self.props()}
        if what == "definition":
            p = self.pick([x for x in self.all("library") if len(x[1].definitions) < cap + 1])
            return p and {"op": "create_definition", "on": p[0], "name": self.name(), "props": self.props()}
        if what in ("port", "cable", "child"):
            defs = self.all("definition")
            if not defs:
                return None
            if what == "port":
                p = self.pick([x for x in defs if len(x[1].ports) < cap])
                if not p:
                    return None
                ev = {"op": "create_port", "on": p[0], "name": self.name(), "props": self.props(),
                      "pins": r.choice([None, 0, 1, 1, 2, self.cfg["max_width"]]),
                      "direction": r.choice([None, "in", "out", "inout", 2, "OUT"])}
                self._bundle_args(ev)
                return ev
            if what == "cable":
                p = self.pick([x for x in defs if len(x[1].cables) < cap])
                if not p:
                    return None
                ev = {"op": "create_cable", "on": p[0], "name": self.name(), "props": self.props(),
                      "wires": r.choice([None, 0, 1, 1, 2, self.cfg["max_width"]])}
                self._bundle_args(ev)
                return ev
            p = self.pick([x for x in defs if len(x[1].children) < cap + 1])
            if not p:
                return None
            ref = self.pick(defs) if r.random() < 0.9 else None
            return {"op": "create_child", "on": p[0], "name": self.name(), "props": self.props(),
                    "ref": ref and ref[0]}
        if what == "pin":
            p = self.pick([x for x in self.all("port") if len(x[1].pins) < self.cfg["max_width"] + 1])
            if not p:
                return None
            if r.random() < 0.3:
                return {"op": "create_pins", "on": p[0], "n": r.choice([0, 1, 1, 2, 2, 3])}
            return {"op": "create_pin", "on": p[0]}
        if what == "wire":
            p = self.pick([x for x in self.all("cable") if len(x[1].wires) < self.cfg["max_width"] + 1])
            if not p:
                return None
            if r.random() < 0.3:
                return {"op": "create_wires", "on": p[0], "n": r.choice([0, 1, 1, 2, 2, 3])}
            return {"op": "create_wire", "on": p[0]}

    def _bundle_args(self, ev):
        r = self.r
        if r.random() < 0.3:
            ev["is_downto"] = r.choice([True, False])
        if r.random() < 0.3:
            ev["is_scalar"] = r.choice([True, False])
        if r.random() < 0.3:
            ev["lower_index"] = r.choice([0, 1, -2, 5])

    def f_orphans(self):
        k = self.r.choice(["library_new", "definition_new", "port_new", "cable_new", "instance_new",
                           "ipin_new", "wire_new"])
        if len(self.all(k[:-4])) > 14:
            return None
        ev = {"op": k}
        if k not in ("ipin_new", "wire_new"):
            ev["name"] = self.name()
            ev["props"] = self.props()
        return ev

    # containment table: family helpers
    REL = {
        "library": ("netlist", "libraries", "netlist", "add_library", "remove_library",
                    "remove_libraries_from", "set_libraries"),
        "definition": ("library", "definitions", "library", "add_definition", "remove_definition",
                       "remove_definitions_from", "set_definitions"),
        "port": ("definition", "ports", "definition", "add_port", "remove_port", "remove_ports_from", "set_ports"),
        "cable": ("definition", "cables", "definition", "add_cable", "remove_cable", "remove_cables_from",
                  "set_cables"),
        "instance": ("definition", "children", "parent", "add_child", "remove_child", "remove_children_from",
                     "set_children"),
        "ipin": ("port", "pins", "port", "add_pin", "remove_pin", "remove_pins_from", "set_pins"),
        "wire": ("cable", "wires", "cable", "add_wire", "remove_wire", "remove_wires_from", "set_wires"),
    }

    def _rel(self):
        rb = self.cfg.get("rel_bias")
        if rb and self.r.random() < 0.6:
            return self.r.choice(rb)
        return self.r.choice(["library", "definition", "port", "port", "cable", "cable", "instance", "instance",
                              "ipin", "ipin", "wire", "wire"])

    def f_attach(self):
        ck = self._rel()
        pk, acc, back, add, _, _, _ = self.REL[ck]
        parents = self.all(pk)
        kids = self.all(ck)
        if not parents or not kids:
            return None
        p = self.pick(parents)
        if self.hostile():
            c = self.pick(kids)
            self.w.count("hostile.attach")
        else:
            c = self.pick([x for x in kids if getattr(x[1], back) is None])
            if c is None:
                return None
        return {"op": add, "on": p[0], "x": c[0], "position": self.position(len(getattr(p[1], acc)))}

    def f_remove(self):
        ck = self._rel()
        pk, acc, back, _, rem, _, _ = self.REL[ck]
        kids = self.all(ck)
        if not kids:
            return None
        if self.hostile():
            p = self.pick(self.all(pk))
            c = self.pick(kids)
            if not p:
                return None
            self.w.count("hostile.remove")
            return {"op": rem, "on": p[0], "x": c[0]}
        c = self.pick([x for x in kids if getattr(x[1], back) is not None])
        if c is None:
            return None
        ph = self.hd(getattr(c[1], back))
        if ph is None:
            return None
        return {"op": rem, "on": ph, "x": c[0]}

    def f_bulk_remove(self):
        ck = self._rel()
        pk, acc, back, _, _, bulk, _ = self.REL[ck]
        parents = [x for x in self.all(pk) if len(getattr(x[1], acc)) > 0]
        p = self.pick(parents)
        if p is None:
            return None
        members = [self.hd(x) for x in getattr(p[1], acc)]
        if any(m is None for m in members):
            return None
        k = self.r.randint(1, len(members))
        xs = self.r.sample(members, k)
        if self.r.random() < 0.15:
            xs.append(self.r.choice(xs))  # a repeated element in list form
        if self.hostile():
            f = self.pick(self.all(ck))
            if f:
                xs.append(f[0])
                self.w.count("hostile.bulk_remove")
        if self.r.random() < 0.1:
            xs = []
        return {"op": bulk, "on": p[0], "xs": xs, "as_set": self.r.choice([False, False, True, True, "iter", "gen"])}

    def f_reorder(self):
        if self.r.random() < 0.25:
            return self.f_wire_reorder()
        ck = self._rel()
        pk, acc, back, _, _, _, setter = self.REL[ck]
        parents = [x for x in self.all(pk) if len(getattr(x[1], acc)) > 0]
        p = self.pick(parents)
        if p is None:
            return None
        members = [self.hd(x) for x in getattr(p[1], acc)]
        if any(m is None for m in members):
            return None
        xs = list(members)
        self.r.shuffle(xs)
        if self.hostile():
            self.w.count("hostile.reorder")
            how = self.r.choice(["drop", "dup", "foreign", "replace"])
            f = self.pick(self.all(ck))
            if how == "drop":
                xs.pop()
            elif how == "dup":
                xs.append(self.r.choice(xs))
            elif how == "foreign" and f:
                xs.append(f[0])
            elif how == "replace" and f:
                xs[self.r.randrange(len(xs))] = f[0]
        ev = {"op": setter, "on": p[0], "xs": xs}
        if self.r.random() < 0.2:
            ev["as_set"] = self.r.choice(["iter", "gen"])  # a one-shot iterable instead of a list
        return ev

    # -- connections ------------------------------------------------------------------
    def _pin_candidates(self):
        """(pinref, pin object or None for a proxy, currently connected wire)"""
        out = []
        for hd, p in self.all("ipin"):
            out.append(({"k": "in", "h": hd}, p))
        for ih, inst in self.all("instance"):
            for ip, op in inst.pins.items():
                ph = self.hd(ip)
                if ph is None:
                    continue
                kind = "proxy" if self.r.random() < self.cfg["proxy_rate"] else "stored"
                out.append(({"k": kind, "i": ih, "p": ph}, op))
        visible = [x[1] for x in self.all("instance")]
        for name, px in sorted(getattr(self.w, "proxies", {}).items()):
            inst, ip = px.instance, px.inner_pin
            if inst is not None and ip is not None and ip in inst.pins and any(inst is v for v in visible):
                for _ in range(3):      # (held proxies are few: give them weight among the candidates)
                    out.append(({"k": "heldproxy", "h": name}, inst.pins[ip]))
        return out

    def _ref_for(self, pin):
        """pinref naming an existing pin object (inner or stored outer)."""
        if kind_of(pin) == "ipin":
            h = self.hd(pin)
            return h and {"k": "in", "h": h}
        i, ip = pin.instance, pin.inner_pin
        if i is None or ip is None:
            h = self.hd(pin)
            return h and {"k": "held", "h": h}
        ih, ph = self.hd(i), self.hd(ip)
        if ih is None or ph is None:
            return None
        for name, px in sorted(getattr(self.w, "proxies", {}).items()):
            # the caller still holds the stand-in it once built for this pin (and may have connected it through it)
            if px.instance is i and px.inner_pin is ip and self.r.random() < 0.5:
                return {"k": "heldproxy", "h": name}
        kind = "proxy" if self.r.random() < self.cfg["proxy_rate"] else "stored"
        return {"k": kind, "i": ih, "p": ph}

    def f_connect(self):
        wires = self.all("wire")
        if not wires:
            return None
        wr = self.pick(wires)
        cands = self._pin_candidates()
        if not cands:
            return None
        if self.hostile():
            self.w.count("hostile.connect")
            how = self.r.random()
            held = self.all("opin")
            if how < 0.3 and held:
                ref = {"k": "held", "h": self.pick(held)[0]}
            elif how < 0.5:
                # proxy for an (instance, inner pin) pair that does not belong together
                i = self.pick(self.all("instance"))
                p = self.pick(self.all("ipin"))
                if not i or not p:
                    return None
                ref = {"k": "proxy", "i": i[0], "p": p[0]}
            else:
                ref = self.pick(cands)[0]
        else:
            # prefer pins that make sense for this wire: inner pins of its definition, outer pins of
            # instances inside its definition; otherwise any free pin
            free = [c for c in cands if c[1].wire is None]
            if not free:
                return None
            d = wr[1].cable.definition if wr[1].cable is not None else None
            local = []
            if d is not None:
                for c in free:
                    p = c[1]
                    if kind_of(p) == "ipin":
                        if p.port is not None and p.port.definition is d:
                            local.append(c)
                    elif p.instance is not None and p.instance.parent is d:
                        local.append(c)
            ref = self.pick(local if local and self.r.random() < 0.8 else free)[0]
        return {"op": "connect_pin", "on": wr[0], "pin": ref, "position": self.position(len(wr[1].pins))}

    def f_disconnect(self):
        wires = [x for x in self.all("wire") if len(x[1].pins) > 0]
        if self.hostile():
            self.w.count("hostile.disconnect")
            wr = self.pick(self.all("wire"))
            c = self.pick(self._pin_candidates())
            if not wr or not c:
                return None
            return {"op": "disconnect_pin", "on": wr[0], "pin": c[0]}
        wr = self.pick(wires)
        if wr is None:
            return None
        ref = self._ref_for(self.r.choice(list(wr[1].pins)))
        if ref is None:
            return None
        if ref["k"] == "proxy":
            self.w.count("probe.proxy_disconnect")
        return {"op": "disconnect_pin", "on": wr[0], "pin": ref}

    def f_bulk_disconnect(self):
        wires = [x for x in self.all("wire") if len(x[1].pins) > 0]
        wr = self.pick(wires)
        if wr is None:
            return None
        pins = list(wr[1].pins)
        k = self.r.randint(1, len(pins))
        refs = [self._ref_for(p) for p in self.r.sample(pins, k)]
        if any(x is None for x in refs):
            return None
        if self.hostile():
            c = self.pick(self._pin_candidates())
            if c:
                refs.append(c[0])
                self.w.count("hostile.bulk_disconnect")
        if self.r.random() < 0.1:
            refs = []
        return {"op": "disconnect_pins_from", "on": wr[0], "pins": refs, "as_set": self.r.choice([False, False, True, True, "iter", "gen"])}

    def f_wire_reorder(self):
        """wire.pins = <permutation of its pins> (the pins named by stored objects or by fresh proxies)."""
        wires = [x for x in self.all("wire") if len(x[1].pins) > 0]
        wr = self.pick(wires)
        if wr is None:
            return None
        refs = [self._ref_for(p) for p in wr[1].pins]
        if any(x is None for x in refs):
            return None
        self.r.shuffle(refs)
        if self.hostile():
            self.w.count("hostile.wire_reorder")
            how = self.r.choice(["drop", "dup", "foreign"])
            if how == "drop":
                refs.pop()
            elif how == "dup":
                refs.append(self.r.choice(refs))
            else:
                c = self.pick(self._pin_candidates())
                if c:
                    refs.append(c[0])
        return {"op": "set_wire_pins", "on": wr[0], "pins": refs}

    def f_chain(self):
        """A short scripted history on ONE instance pin: its wire's pin list is re-assigned (which hashes the stored
        outer pin), the instance is re-pointed to a shape-compatible definition, then the pin is bulk-disconnected
        through a fresh proxy - state kept inside a pin object across a re-point has to stay consistent."""
        insts = [x for x in self.all("instance") if x[1].reference is not None and
                 any(op.wire is not None for op in x[1].pins.values())]
        i = self.pick(insts)
        if i is None:
            return None
        ref = i[1].reference
        sh = self._shape(ref)
        comp = [d for d in self.all("definition") if d[1] is not ref and self._shape(d[1]) == sh]
        d = self.pick(comp)
        if d is None:
            return None
        for pk, port in enumerate(ref.ports):
            for jk, ip in enumerate(port.pins):
                op = i[1].pins.get(ip)
                if op is None or op.wire is None:
                    continue
                wh = self.hd(op.wire)
                new_ip = list(list(d[1].ports)[pk].pins)[jk]
                nh = self.hd(new_ip)
                refs = [self._ref_for(p) for p in op.wire.pins]
                if wh is None or nh is None or any(x is None for x in refs):
                    continue
                self.w.count("probe.chain_reorder_repoint_bulk_disconnect")
                self.queue.append({"op": "set_reference", "on": i[0], "x": d[0]})
                self.queue.append({"op": "disconnect_pins_from", "on": wh,
                                   "pins": [{"k": "proxy", "i": i[0], "p": nh}],
                                   "as_set": self.r.choice([False, True])})
                return {"op": "set_wire_pins", "on": wh, "pins": refs}
        return None

    def f_adopt(self):
        """A definition is furnished while it belongs to no library - a port, a cable and a child that share a name or
        carry identifiers differing in case only (they are separate scopes) - and is then adopted by a library, possibly
        one under the other naming policy: the adoption has to judge the definition's contents scope by scope."""
        r = self.r
        orphans = [d for d in self.all("definition") if d[1].library is None]
        d = self.pick(orphans)
        base = r.choice(["sig_A", "x", "Ab", "n1"])
        if d is None:
            return {"op": "definition_new", "name": r.choice(["adoptee", "Adoptee", base])}
        if not d[1].cables:
            return {"op": "create_cable", "on": d[0], "name": base, "wires": 1}
        if not d[1].children:
            return {"op": "create_child", "on": d[0], "name": r.choice([base, base.swapcase()])}
        lib = self.pick(self.all("library"))
        cab = self.pick([(self.hd(c), c) for c in d[1].cables if self.hd(c)])
        kid = self.pick([(self.hd(c), c) for c in d[1].children if self.hd(c)])
        if lib is None or cab is None or kid is None:
            return None
        self.w.count("probe.adopt_furnished_orphan")
        key = r.choice(["EDIF.identifier", "EDIF.identifier", ".NAME"])
        self.queue.append({"op": "data_set", "on": kid[0], "key": key, "v": r.choice([base, base.swapcase(), base.lower()])})
        if r.random() < 0.5:
            self.queue.append({"op": "policy", "v": r.choice(["DEFAULT", "EDIF"])})
        self.queue.append({"op": "add_definition", "on": lib[0], "x": d[0]})
        return {"op": "data_set", "on": cab[0], "key": key, "v": base}

    # -- instances --------------------------------------------------------------------
    @staticmethod
    def _shape(d):
        return tuple(len(p.pins) for p in d.ports)

    def f_reference(self):
        insts = self.all("instance")
        defs = self.all("definition")
        i = self.pick(insts)
        if i is None or not defs:
            return None
        x = self.r.random()
        if x < 0.15:
            return {"op": "set_reference", "on": i[0], "x": None}
        if x < 0.2:
            return {"op": "del_reference", "on": i[0]}
        if self.hostile():
            self.w.count("hostile.reference")
            return {"op": "set_reference", "on": i[0], "x": self.pick(defs)[0]}
        if i[1].reference is None:
            return {"op": "set_reference", "on": i[0], "x": self.pick(defs)[0]}
        sh = self._shape(i[1].reference)
        comp = [d for d in defs if self._shape(d[1]) == sh]
        d = self.pick(comp)
        if d is None:
            return None
        if d[1] is not i[1].reference:
            self.w.count("probe.repoint_compatible")
        return {"op": "set_reference", "on": i[0], "x": d[0]}

    def f_top(self):
        n = self.pick(self.all("netlist"))
        x = self.r.random()
        if x < 0.15:
            return {"op": "set_top", "on": n[0], "x": None}
        cands = self.all("definition") if self.r.random() < 0.5 else self.all("instance")
        c = self.pick(cands)
        if c is None:
            return None
        if self.r.random() < 0.35:
            ev = {"op": "set_top_instance", "on": n[0], "x": c[0]}
            if self.r.random() < 0.7:
                ev["name"] = self.name() or "top"
            return ev
        return {"op": "set_top", "on": n[0], "x": c[0]}

    def f_hold(self):
        i = self.pick([x for x in self.all("instance") if len(x[1].pins) > 0])
        if i is None or len(self.all("opin")) > 6:
            return None
        ip = self.r.choice(list(i[1].pins.keys()))
        ph = self.hd(ip)
        if ph and self.r.random() < 0.5 and len(getattr(self.w, "proxies", {})) < 4:
            # a proxy object built once and used for several calls (connect with it, disconnect with it ...)
            return {"op": "hold_proxy", "inst": i[0], "ipin": ph, "name": "px%d" % len(self.w.proxies)}
        return ph and {"op": "hold_opin", "inst": i[0], "ipin": ph}

    # -- names and data ---------------------------------------------------------------
    def _first_class(self):
        k = self.r.choice(["netlist", "library", "definition", "port", "cable", "instance"])
        return self.pick(self.all(k))

    def f_name(self):
        e = self._first_class()
        if e is None:
            return None
        x = self.r.random()
        mode = self.cfg["names"]
        pool = NAMES_PLAIN if mode == "plain" else NAMES_COLLIDE
        def val(v):
            # now and then the value is an instance of a str subclass: equal to, and hashing like, the plain string
            return {"__strsub__": v} if isinstance(v, str) and self.r.random() < 0.12 else v
        if x < 0.5:
            return {"op": "set_name", "on": e[0], "v": val(self.r.choice(pool + [None]))}
        if x < 0.6:
            return {"op": "del_name", "on": e[0]}
        key = self.r.choice([".NAME", "EDIF.identifier", "EDIF.identifier"])
        if x < 0.85:
            return {"op": "data_set", "on": e[0], "key": key, "v": val(self.r.choice(pool))}
        return {"op": self.r.choice(["data_del", "data_pop"]), "on": e[0], "key": key}

    def f_data(self):
        e = self._first_class()
        if e is None:
            return None
        key = self.r.choice(USER_KEYS)
        x = self.r.random()
        if x < 0.6:
            return {"op": "data_set", "on": e[0], "key": key, "v": self.r.choice(USER_VALUES)}
        return {"op": self.r.choice(["data_del", "data_pop"]), "on": e[0], "key": key}

    def f_ns(self):
        e = self._first_class()
        if e is None:
            return None
        x = self.r.random()
        if x < 0.7:
            return {"op": "data_set", "on": e[0], "key": ".NS", "v": self.r.choice(["DEFAULT", "EDIF", "EDIF", "bogus"])}
        return {"op": self.r.choice(["data_del", "data_pop"]), "on": e[0], "key": ".NS"}

    def f_bundle(self):
        b = self.pick(self.all("port") + self.all("cable"))
        if b is None:
            return None
        x = self.r.random()
        if x < 0.25 and kind_of(b[1]) == "port":
            return {"op": "set_direction", "on": b[0], "v": self.r.choice(["in", "out", "inout", "undef", 1, "In", "bogus", 9])}
        if x < 0.45:
            return {"op": "set_downto", "on": b[0], "v": self.r.choice([True, False])}
        if x < 0.65:
            return {"op": "set_scalar", "on": b[0], "v": self.r.choice([True, False])}
        if x < 0.8:
            return {"op": "set_array", "on": b[0], "v": self.r.choice([True, False])}
        return {"op": "set_lower_index", "on": b[0], "v": self.r.choice([0, 1, 3, -1])}

    # -- environment ------------------------------------------------------------------
    def f_gc(self):
        return {"op": "gc"}

    def f_policy(self):
        return {"op": "policy", "v": self.r.choice(["DEFAULT", "EDIF"])}

    def f_clone(self):
        k = self.r.choice(["netlist", "library", "definition", "instance", "port", "cable", "wire", "ipin"])
        c = self.pick(self.all(k))
        if c is None or len(self.w.order) > 400:
            return None
        return {"op": "clone", "on": c[0]}

    # -- third-party listeners (C19) ------------------------------------------------------
    def f_listener(self):
        ls = getattr(self.w, "listeners", {})
        from .listeners import ShadowListener, HOOKS
        shadows = [k for k, v in ls.items() if isinstance(v, ShadowListener)]
        nid = self.cfg.setdefault("_lid", 0)
        if not shadows:
            self.cfg["_lid"] = nid + 1
            return {"op": "listener_add", "kind": "shadow", "id": nid}
        x = self.r.random()
        if x < 0.3 and ls:
            return {"op": "listener_remove", "id": self.r.choice(sorted(ls))}
        if len(ls) >= 6:
            return None
        self.cfg["_lid"] = nid + 1
        kinds = [("shadow", 2 if len(shadows) < 3 else 0), ("passive", 1), ("gc_inside", 1),
                 ("veto", 2 if self.cfg.get("veto") else 0), ("partial", 2)]
        kind = weighted(self.r, kinds)
        ev = {"op": "listener_add", "kind": kind, "id": nid}
        if kind == "partial":
            # a listener that overrides a few hooks only (related hooks are the interesting neighbours)
            groups = [["dictionary_set", "dictionary_delete", "dictionary_pop"], ["wire_connect_pin", "wire_disconnect_pin"],
                      ["definition_add_child", "definition_remove_child", "instance_reference"],
                      ["port_add_pin", "port_remove_pin", "cable_add_wire", "cable_remove_wire"]]
            g = self.r.choice(groups)
            ev["hooks"] = sorted(set(self.r.sample(g, self.r.randint(1, len(g) - 1)) +
                                     (self.r.sample(HOOKS, self.r.randint(0, 2)))))
        if kind == "gc_inside":
            ev["every"] = self.r.choice([1, 3, 7, 20])
        if kind == "veto":
            ev["hook"] = self.r.choice([h for h in HOOKS if not h.startswith("create_")])
            ev["at"] = self.r.randint(1, 4)
        return ev


    # -- reader-built netlists (C10: lookup == scan also for what the readers build) -----------------
    def f_parse_text(self):
        if len(self.w.order) > 300:
            return None
        from . import textgen_edif, textgen_verilog
        k = self.cfg.setdefault("_ptext", 0)
        self.cfg["_ptext"] = k + 1
        if self.r.random() < 0.6:
            d = textgen_edif.gen_design(self.r, {"n_libs": self.r.choice([1, 2]), "max_cells": 2, "max_ports": 2,
                                                 "max_insts": 2, "max_nets": 2})
            text, ext = textgen_edif.render(d, self.r, {"ws": "plain"}), "edf"
        else:
            d = textgen_verilog.gen_design(self.r, {"depth": 1, "max_mods": 1, "max_ports": 2, "max_wires": 2,
                                                    "max_insts": 2, "max_prims": 1})
            text, ext = textgen_verilog.render(d, self.r, {"ws": "plain"}), "v"
        path = "sim://t%d.%s" % (k, ext)
        self.queue.append({"op": "parse", "path": path})
        return {"op": "fs_put", "path": path, "text": text}
