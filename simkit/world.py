"""The simulated process: every process-wide seam of spydrnet behind one object.

World owns: identity hashes of IR objects (PRNG chosen), the GC schedule, the
volatile process state (naming policy, listeners, lookup registry, counters,
weak tables), the in-memory file system and the clock.  ``reset`` brings all of
it back to the import-time state so that a run is a pure function of its seed.
"""
import builtins
import gc
import io
import os
import sys

from .rng import derive

import spydrnet as sdn
from spydrnet.ir import element as _element_mod
from spydrnet.global_state import global_callback as _gcb
from spydrnet.global_state import global_service as _gsv
from spydrnet.plugins.namespace_manager import NamespaceManager
from spydrnet.util import hierarchical_reference as _href_mod
import importlib

_uniq_mod = importlib.import_module("spydrnet.uniquify")
_flat_mod = importlib.import_module("spydrnet.flatten")

KINDS = (
    ("netlist", sdn.Netlist),
    ("library", sdn.Library),
    ("definition", sdn.Definition),
    ("port", sdn.Port),
    ("cable", sdn.Cable),
    ("instance", sdn.Instance),
    ("ipin", sdn.InnerPin),
    ("opin", sdn.OuterPin),
    ("wire", sdn.Wire),
)


def kind_of(o):
    for k, c in KINDS:
        if isinstance(o, c):
            return k
    return None


class HarnessError(Exception):
    """A failure of the machinery itself (never reported as a VIOLATION)."""


# --------------------------------------------------------------------------
# import-time baseline of every volatile process-wide item
# --------------------------------------------------------------------------
_CONTAINERS = [n for n in dir(_gcb) if n.startswith("_container_")]
_BASE = {
    "containers": {n: list(getattr(_gcb, n)) for n in _CONTAINERS},
    "lookups": dict(_gsv._registered_lookups),
    "hlookup": _gsv._registered_hierarchical_lookup,
    "policy": NamespaceManager.default,
    "policies": dict(NamespaceManager.policies),
}

_gc_was_disabled = False


class SimClock:
    """Logical clock: one tick per event, plus seeded jumps."""

    def __init__(self):
        self.ticks = 0
        self.offset_s = 0

    def now_s(self):
        return 1_600_000_000 + self.ticks + self.offset_s


class World:
    current = None  # the World whose hash function is installed

    def __init__(self):
        global _gc_was_disabled
        self.sdn = sdn
        self.hash_seed = 0
        self.cur_event = -1
        self._hash_k = 0
        self.hash_mode = "prng"
        self.handles = {}
        self.order = []  # handles in creation order
        self.rev = {}
        self.fs = None
        self.clock = SimClock()
        self.listeners = {}
        self.stats = {}
        self.gc_count = 0
        World.current = self
        from . import simfs
        simfs.install(self)
        _install_hash()
        if not _gc_was_disabled:
            gc.disable()
            _gc_was_disabled = True

    # -- statistics ---------------------------------------------------------
    def count(self, name, n=1):
        self.stats[name] = self.stats.get(name, 0) + n

    # -- identity hash seam -------------------------------------------------
    def next_hash(self):
        k = self._hash_k
        self._hash_k = k + 1
        if self.hash_mode == "counter":
            # used by minimisation: a fixed, address-free but trivial order
            return (self.cur_event + 2) * 100003 + k
        return derive(self.hash_seed, self.cur_event, k) >> 3

    def begin_event(self, i):
        self.cur_event = i
        self._hash_k = 0
        self.clock.ticks += 1

    # -- handles --------------------------------------------------------------
    def bind(self, handle, obj):
        self.handles[handle] = obj
        self.order.append(handle)
        self.rev.setdefault(id(obj), handle)
        if kind_of(obj) not in (None, "opin"):
            hash(obj)  # fix the identity hash now, so that later oracle/listener activity cannot shift it

    def release(self, handle):
        """Forget a handle (the object is no longer a root of fingerprints and scans; later events skip it)."""
        obj = self.handles.pop(handle, None)
        if obj is not None:
            self.order.remove(handle)
            if self.rev.get(id(obj)) == handle:
                del self.rev[id(obj)]

    def h(self, handle):
        return self.handles.get(handle)

    def handle_of(self, obj):
        return self.rev.get(id(obj))

    def name_of(self, obj):
        if obj is None:
            return "None"
        hd = self.rev.get(id(obj))
        if hd is not None:
            return hd
        return "<untracked %s>" % (kind_of(obj) or type(obj).__name__)

    def roots(self):
        hs = self.handles
        return [hs[h] for h in self.order]

    def by_kind(self, kind):
        return [hd for hd in self.order if kind_of(self.handles[hd]) == kind]

    # -- GC seam ------------------------------------------------------------
    def collect(self):
        self.gc_count += 1
        self.count("fault.gc")
        return gc.collect()

    # -- reset: back to import-time process state --------------------------------
    def reset(self, hash_seed=0, hash_mode="prng"):
        self.handles = {}
        self.order = []
        self.rev = {}
        self.stats = {}
        self.hash_seed = hash_seed
        self.hash_mode = hash_mode
        self.cur_event = -1
        self._hash_k = 0
        self.gc_count = 0
        self.listeners = {}
        self.deflists = {}      # option objects handed to composers (see oplang compose)
        self.proxies = {}       # proxy outer pins the "caller" keeps and uses again (never part of the IR, never scanned)
        self.clock = SimClock()
        self.restore_process_state()
        if self.fs is not None:
            self.fs.clear()
        gc.collect()

    def restore_process_state(self):
        """What a process restart does to volatile state (F12) and what reset needs."""
        for n, v in _BASE["containers"].items():
            getattr(_gcb, n)[:] = v
        _gsv._registered_lookups.clear()
        _gsv._registered_lookups.update(_BASE["lookups"])
        _gsv._registered_hierarchical_lookup = _BASE["hlookup"]
        NamespaceManager.default = _BASE["policy"]
        NamespaceManager.policies.clear()
        NamespaceManager.policies.update(_BASE["policies"])
        nm = sdn.namespace_manager
        # the readers assign namespace_manager.default on the INSTANCE, which then shadows the class
        # attribute for the rest of the process: a fresh process has no such instance attribute
        nm.__dict__.pop("default", None)
        nm.namespaces.clear()
        nm.ignore_ns_change = False
        _href_mod.flyweight.clear()
        _uniq_mod.MOD_NAME_UID = 0
        _flat_mod.unique_number = 0
        _flat_mod.mod_name_uid = 0

    def restart(self):
        """Fault F12: the process exits.  Volatile state is gone, live netlists are gone, SimFS survives."""
        self.handles = {}
        self.order = []
        self.rev = {}
        self.listeners = {}
        self.restore_process_state()
        gc.collect()
        self.count("fault.restart")

    # -- volatile state accessors used by oracles ---------------------------------
    @staticmethod
    def policy():
        return sdn.namespace_manager.default

    @staticmethod
    def set_policy(v):
        # the way the readers (and users) switch it: through the plugin instance
        sdn.namespace_manager.default = v

    @staticmethod
    def process_state_fingerprint():
        """Identity-level picture of the process-wide registries (C15)."""
        conts = tuple(
            (n, tuple((getattr(f, "__self__", None) is sdn.namespace_manager,
                       getattr(f, "__name__", repr(type(f)))) for f in getattr(_gcb, n)))
            for n in _CONTAINERS
        )
        looks = tuple(sorted((k, getattr(v, "__name__", "?")) for k, v in _gsv._registered_lookups.items()))
        return (sdn.namespace_manager.default, conts, looks,
                sdn.namespace_manager.ignore_ns_change)

    @staticmethod
    def counters():
        return {"uniquify": _uniq_mod.MOD_NAME_UID, "flatten_mod": _flat_mod.mod_name_uid,
                "flatten_unique": _flat_mod.unique_number}

    @staticmethod
    def set_counters(uniquify=None, flatten_mod=None):
        if uniquify is not None:
            _uniq_mod.MOD_NAME_UID = uniquify
        if flatten_mod is not None:
            _flat_mod.mod_name_uid = flatten_mod

    @staticmethod
    def lookup_cache(on):
        nm = sdn.namespace_manager
        registered = ".NAME" in _gsv._registered_lookups
        if on and not registered:
            nm.register_all_listeners()
        elif not on and registered:
            nm.deregister_all_listeners()


def _simhash(self):
    d = self.__dict__
    h = d.get("_simhash")
    if h is None:
        h = d["_simhash"] = World.current.next_hash()
    return h


def _install_hash():
    # Base class of every IR object; OuterPin and HRef derive theirs from it.
    _element_mod.Element.__hash__ = _simhash
    probe = sdn.Wire()
    if not hasattr(probe, "__dict__"):
        raise HarnessError("IR objects have no __dict__; identity-hash seam unavailable")
    hash(probe)
    if "_simhash" not in probe.__dict__:
        raise HarnessError("identity-hash seam not effective")


def scrub_check():
    """Refuse to run in an environment that breaks the determinism contract."""
    if os.environ.get("PYTHONHASHSEED") in (None, "", "random"):
        raise HarnessError("PYTHONHASHSEED must be fixed; run through ./check")
    if os.path.exists(os.path.join(os.getcwd(), ".spydrnet")):
        raise HarnessError(".spydrnet plugin file in cwd")
