"""Seeded search over many simulated runs on all cores; findings; evidence; replay."""
import concurrent.futures as cf
import faulthandler
import importlib
import json
import multiprocessing
import os
import subprocess
import sys
import time
import traceback

from . import findings as findings_mod
from .engine import run_one, replay as engine_replay, kinds_key, make_cfg
from .violation import Violation
from .world import World, HarnessError

HOME = findings_mod.HOME
REPO = os.environ.get("VERIF_REPO", "/repo")

_world = None


def world():
    global _world
    if _world is None:
        _world = World()
    return _world


def load_prop(prop_id):
    mod = importlib.import_module("checks.%s" % prop_id.lower())
    return mod.PROP()


def _merge(dst, src):
    for k, v in src.items():
        dst[k] = dst.get(k, 0) + v


def _work(job):
    """One chunk of runs in a worker process."""
    prop_id, verif_seed, start, count, tier, known, deadline, chunk_wall = job
    faulthandler.dump_traceback_later(chunk_wall, exit=True)
    import resource
    import signal
    if not getattr(sys.stdout, "_verif_null", False):
        # the library prints remarks ("EBLIFParser: Index was: ...") while it reads: workers report through their
        # return value only, their standard output is not part of any verdict
        sys.stdout = open(os.devnull, "w")
        sys.stdout._verif_null = True
    try:
        resource.setrlimit(resource.RLIMIT_AS, (8 << 30, 8 << 30))
    except (ValueError, OSError):
        pass

    def _alarm(signum, frame):
        raise HarnessError("run exceeded the per-run wall backstop")
    signal.signal(signal.SIGALRM, _alarm)
    try:
        prop = load_prop(prop_id)
        prop.known = set(known)
        w = world()
        out = {"runs": 0, "events": 0, "stats": {}, "kinds": {}, "pairs": set(), "finals": set(),
               "states": set(), "known": {}, "violation": None, "samples": [], "digests": [],
               "nontrivial": 0, "sim_ticks": 0, "extra": {}}
        for index in range(start, start + count):
            if time.time() > deadline:
                out["deadline"] = True
                break
            track = (index % 16 == 0)
            signal.alarm(prop.run_wall)
            try:
                r = run_one(prop, w, verif_seed, index, tier, track_states=track)
            except (HarnessError, MemoryError, RecursionError) as x:
                raise HarnessError("run %d of %s: %r" % (index, prop_id, x))
            finally:
                signal.alarm(0)
            out["runs"] += 1
            out["events"] += r.n_events
            out["sim_ticks"] += w.clock.ticks
            _merge(out["stats"], r.stats)
            for sk, sv in r.stats.items():
                if sk.startswith("known."):
                    out["known"][sk[6:]] = out["known"].get(sk[6:], 0) + sv
            _merge(out["kinds"], r.kinds)
            _merge(out["extra"], r.extra)
            out["finals"].add(r.final_fp)
            if r.nontrivial:
                out["nontrivial"] += 1
                out["pairs"].add((kinds_key(r.kinds), r.final_fp))
            if track:
                out["states"] |= r.states
            out["digests"].append((index, r.digest))
            if r.violation is not None:
                sig = r.violation.signature
                if sig in known:
                    out["known"][sig] = out["known"].get(sig, 0) + 1
                else:
                    out["violation"] = {"index": index, "cfg": r.cfg, "trace": r.trace,
                                        "violation": r.violation.to_json()}
                    break
            if len(out["samples"]) < 2 and (index == start or r.stats.get("outcome.refused:AssertionError")):
                out["samples"].append({"run_index": index, "n_events": r.n_events,
                                       "trace": r.trace[:60]})
        return out
    finally:
        faulthandler.cancel_dump_traceback_later()


def tree_hash():
    try:
        h = subprocess.run(["git", "-C", REPO, "rev-parse", "HEAD"], capture_output=True, text=True).stdout.strip()
        d = subprocess.run(["git", "-C", REPO, "status", "--porcelain", "--", "spydrnet"], capture_output=True,
                           text=True).stdout.strip()
        return h + ("+dirty" if d else "")
    except Exception:
        return "unknown"


def write_replay(prop_id, verif_seed, v, minimised=None, info=None):
    d = os.path.join(HOME, "replays")
    os.makedirs(d, exist_ok=True)
    base = "%s-%s-%s" % (prop_id, verif_seed, v["index"])
    full = os.path.join(d, base + ".full.json")
    doc = {"format": 1, "property": prop_id, "verif_seed": verif_seed, "run_index": v["index"],
           "repo_tree": tree_hash(), "world": v["cfg"], "trace": v["trace"], "violation": v["violation"]}
    with open(full, "w") as f:
        json.dump(doc, f, indent=1, default=str)
    if minimised is None:
        return full
    cfg, trace = minimised
    doc2 = dict(doc, world=cfg, trace=trace, minimised_from=os.path.relpath(full, HOME), shrink=info)
    path = os.path.join(d, base + ".json")
    with open(path, "w") as f:
        json.dump(doc2, f, indent=1, default=str)
    return path


def replay_file(path, strict=False):
    doc = json.load(open(path))
    prop = load_prop(doc["property"])
    prop.known = set() if strict else set(
        f.signature for f in findings_mod.load(doc["property"]) if f.status == "open")
    w = world()
    r = engine_replay(prop, w, doc["world"], doc["trace"])
    return doc, r


TIERS = {"quick": 1.0, "thorough": 25.0}


def run_property(prop_id, tier="quick", verif_seed=0, nruns=None, workers=None, budget_s=None,
                 want_digests=False, quiet=False):
    t0 = time.time()
    prop = load_prop(prop_id)
    workers = workers or int(os.environ.get("VERIF_WORKERS") or 0) or min(16, os.cpu_count() or 1)
    if nruns is None:
        env_runs = os.environ.get("VERIF_RUNS")
        nruns = int(env_runs) if env_runs else prop.runs[tier]
    if budget_s is None:
        eb = os.environ.get("VERIF_BUDGET_S")
        budget_s = float(eb) if eb else prop.budget_s[tier]
    deadline = t0 + budget_s
    known_list = findings_mod.load(prop_id)
    known_open = {f.signature: f for f in known_list if f.status == "open"}
    say = (lambda *a: None) if quiet else (lambda *a: print(*a, flush=True))
    say("property=%s tier=%s seed=%s runs<=%d workers=%d budget=%ss repo=%s" % (
        prop_id, tier, verif_seed, nruns, workers, int(budget_s), REPO))

    violations = []
    # 1. witnesses of listed findings are replayed first
    witness_log = []
    for f in known_list:
        if not f.witness or os.environ.get("VERIF_NO_WITNESS"):
            # (VERIF_NO_WITNESS is set by the sensitivity self-test only: a reverted fix must be re-found by search)
            continue
        wp = os.path.join(HOME, f.witness)
        doc, r = replay_file(wp, strict=True)
        got = r.violation.signature if r.violation else None
        witness_log.append({"status": f.status, "witness": f.witness, "observed": got})
        if f.status == "fixed" and got is not None:
            say("fixed finding is back: %s (%s)" % (f.what, got))
            violations.append(("witness", wp, got, r.violation.detail))
        if f.status == "open" and got != f.signature:
            say("NOTE: open finding no longer reproduces from its witness: %s (observed %s)" % (f.signature, got))

    # 2. seeded search
    chunk = max(1, min(prop.chunk, (nruns + workers - 1) // workers))
    jobs = []
    s = 0
    while s < nruns:
        c = min(chunk, nruns - s)
        jobs.append((prop_id, verif_seed, s, c, tier, set(known_open), deadline, prop.chunk_wall))
        s += c
    agg = {"runs": 0, "events": 0, "stats": {}, "kinds": {}, "pairs": set(), "finals": set(), "states": set(),
           "known": {}, "samples": [], "nontrivial": 0, "sim_ticks": 0, "extra": {}}
    digests = []
    first_violation = None
    harness_error = None
    hit_deadline = False
    if not violations:
        ctx = multiprocessing.get_context("fork")
        ex = cf.ProcessPoolExecutor(max_workers=workers, mp_context=ctx)
        try:
            futs = [ex.submit(_work, j) for j in jobs]
            for fu in cf.as_completed(futs):
                try:
                    out = fu.result()
                except Exception as x:  # worker died, timed out or the harness raised
                    harness_error = "".join(traceback.format_exception_only(type(x), x)).strip()
                    tb = getattr(x, "__cause__", None)
                    if tb is not None:
                        harness_error += "\n" + str(tb)
                    break
                agg["runs"] += out["runs"]
                agg["events"] += out["events"]
                agg["nontrivial"] += out["nontrivial"]
                agg["sim_ticks"] += out["sim_ticks"]
                _merge(agg["stats"], out["stats"])
                _merge(agg["kinds"], out["kinds"])
                _merge(agg["known"], out["known"])
                _merge(agg["extra"], out["extra"])
                agg["pairs"] |= out["pairs"]
                agg["finals"] |= out["finals"]
                agg["states"] |= out["states"]
                if out.get("deadline"):
                    hit_deadline = True
                if len(agg["samples"]) < 3:
                    agg["samples"].extend(out["samples"][:3 - len(agg["samples"])])
                if want_digests:
                    digests.extend(out["digests"])
                if out["violation"] is not None and (first_violation is None or
                                                     out["violation"]["index"] < first_violation["index"]):
                    first_violation = out["violation"]
                    if not want_digests:
                        break
        finally:
            ex.shutdown(wait=True, cancel_futures=True)

    if harness_error:
        print("HARNESS-ERROR property=%s %s" % (prop_id, harness_error), flush=True)
        return 2, None

    if first_violation is not None and want_digests:
        violations.append(("search", "", first_violation["violation"]["signature"], ""))
    elif first_violation is not None:
        from .shrink import shrink
        v = first_violation
        sig = v["violation"]["signature"]
        say("violation %s in run %d (%d events); minimising" % (sig, v["index"], len(v["trace"])))
        try:
            cfg2, tr2, info = shrink(prop, world(), v["cfg"], v["trace"], sig,
                                     max_s=prop.shrink_s[tier])
            path = write_replay(prop_id, verif_seed, v, (cfg2, tr2), info)
        except Exception as x:
            say("shrink failed: %r" % (x,))
            path = write_replay(prop_id, verif_seed, v)
        violations.append(("search", path, sig, v["violation"]["detail"]))

    wall = time.time() - t0
    if want_digests:
        return (1 if violations else 0), sorted(digests)
    ev = build_evidence(prop, tier, verif_seed, agg, wall, known_open, witness_log, violations, hit_deadline,
                        workers)
    os.makedirs(os.path.join(HOME, "evidence"), exist_ok=True)
    with open(os.path.join(HOME, "evidence", prop_id + ".json"), "w") as f:
        json.dump(ev, f, indent=1, default=str)

    for fnd in known_open.values():
        print("KNOWN-FINDING: property=%s %s [%s; hit in %d runs]" % (
            prop_id, fnd.what, fnd.signature, agg["known"].get(fnd.signature, 0)), flush=True)
    if violations:
        for kind, path, sig, detail in violations:
            say("  %s: %s" % (sig, detail))
            print("VIOLATION property=%s replay=%s" % (prop_id, path), flush=True)
        return 1, ev
    say("ok: %d runs, %d events, %d distinct non-trivial, %.1fs (%.0f runs/h)" % (
        agg["runs"], agg["events"], len(agg["pairs"]), wall, agg["runs"] / max(wall, 1e-9) * 3600))
    return 0, ev


def build_evidence(prop, tier, verif_seed, agg, wall, known_open, witness_log, violations, hit_deadline, workers):
    faults = {k[6:]: v for k, v in agg["stats"].items() if k.startswith("fault.")}
    hostile = {k[8:]: v for k, v in agg["stats"].items() if k.startswith("hostile.")}
    probes = {k[6:]: v for k, v in agg["stats"].items() if k.startswith("probe.")}
    outcomes = {k[8:]: v for k, v in agg["stats"].items() if k.startswith("outcome.")}
    cov = {
        "evaluations": agg["runs"],
        "distinct_nontrivial": len(agg["pairs"]),
        "rule": prop.rule,
        "samples": agg["samples"][:3],
        "runs_per_hour": round(agg["runs"] / max(wall, 1e-9) * 3600),
        "events_executed": agg["events"],
        "simulated_time": {"clock_ticks": agg["sim_ticks"],
                           "virtual_reader_steps": agg["stats"].get("sim.reader_steps", 0)},
        "faults_fired": faults,
        "hostile_calls": hostile,
        "outcomes": outcomes,
        "skipped_events": agg["stats"].get("skipped", 0),
        "probes": probes,
        "event_kinds": dict(sorted(agg["kinds"].items())),
        "distinct_final_states": len(agg["finals"]),
        "distinct_states_in_sampled_runs": len(agg["states"]),
        "state_sampling": "every 16th run records the fingerprint after every event",
        "known_findings_observed": dict(agg["known"]),
        "witnesses_replayed": witness_log,
        "components": {"real_code": prop.components_real, "stub": prop.components_stub},
        "workers": workers,
        "stopped_by_budget": bool(hit_deadline),
        "engine": prop.engine,
        "fit": prop.fit,
        "repo_tree": tree_hash(),
        "exhaustive": False,
    }
    cov.update(agg.get("extra_cov", {}))
    if agg["extra"]:
        cov["extra_counters"] = dict(sorted(agg["extra"].items()))
    return {
        "property_id": prop.id,
        "tier": tier,
        "seed": int(verif_seed),
        "level": prop.level,
        "coverage": cov,
        "assumptions": prop.assumptions,
        "wall_s": round(wall, 2),
        "violations": len(violations),
    }
