"""In-memory file system, stream faults and clock behind spydrnet's open()/Path/datetime names.

Paths of the form ``sim://name`` live here; anything else goes to the real
builtins.open (bundled example files, read-only).  File objects buffer their
writes and flush on newline (buffering=1), flush(), close() and __del__ -
exactly what CPython's text files do - so a writer that relies on reference
counting is not accused, while one that keeps its handle alive is.
"""
import builtins
import errno
import os
import io
import random
from datetime import datetime, timedelta
from pathlib import Path

from .rng import derive

PREFIX = "sim://"


class SimOSError(OSError):
    """An error the simulated environment answers with (legal outcome, not a harness failure)."""
    injected = True


class SimFileNotFound(FileNotFoundError):
    injected = True


class SimFileExists(FileExistsError):
    injected = True


class SimClosedFile(ValueError):
    injected = True


def is_sim(path):
    s = str(path)
    return s.startswith(PREFIX) or s.startswith("sim:/")


def norm(path):
    s = str(path)
    if s.startswith(PREFIX):
        return s[len(PREFIX):]
    if s.startswith("sim:/"):
        return s[len("sim:/"):]
    return s


def _recode(text, enc, errors, reading):
    """The simulated disk holds bytes; the stored text is their reading under the locale encoding of the simulated
    machine (UTF-8). A text file opened with another ``encoding=`` sees / leaves those bytes through that codec."""
    import codecs
    if enc is None:
        return text
    try:
        if codecs.lookup(enc).name == "utf-8":
            return text
    except LookupError:
        raise LookupError("unknown encoding: %s" % enc)
    if reading:
        return text.encode("utf-8", "surrogateescape").decode(enc, errors or "strict")
    return text.encode(enc, errors or "strict").decode("utf-8", "surrogateescape")


class SimFile(io.TextIOBase):
    def __init__(self, fs, name, mode, data=""):
        super().__init__()
        self.fs = fs
        self.sim_name = name
        self.sim_mode = mode
        self._data = data
        self._pos = 0
        self._buf = []
        self._reads = 0
        self._writes = 0
        self._closed = False
        self.plan = fs.read_plan(name) if "r" in mode else None

    # -- reading ------------------------------------------------------------------------
    def readable(self):
        return "r" in self.sim_mode

    def writable(self):
        return "r" not in self.sim_mode

    def _limit(self):
        if self.plan and self.plan.get("truncate_at") is not None:
            return min(len(self._data), self.plan["truncate_at"])
        return len(self._data)

    def read(self, n=-1):
        if self._closed:
            raise SimClosedFile("I/O operation on closed file.")
        self._reads += 1
        self.fs.w.count("sim.reads")
        if self.plan and self.plan.get("read_error_at") == self._reads:
            self.fs.w.count("fault.read_error")
            raise SimOSError(errno.EIO, "simulated I/O error")
        end = self._limit()
        if n is None or n < 0:
            n = end - self._pos
        k = self.fs.chunk(n)
        if k < n and self._pos + k < end:
            self.fs.w.count("fault.short_read")
        out = self._data[self._pos:min(end, self._pos + k)]
        if self.plan and self.plan.get("truncate_at") is not None and self._pos + k >= end < len(self._data):
            self.fs.w.count("fault.truncate")
        self._pos += len(out)
        return out

    def readline(self, size=-1):
        if self._closed:
            raise SimClosedFile("I/O operation on closed file.")
        self._reads += 1
        if self.plan and self.plan.get("read_error_at") == self._reads:
            self.fs.w.count("fault.read_error")
            raise SimOSError(errno.EIO, "simulated I/O error")
        end = self._limit()
        i = self._data.find("\n", self._pos, end)
        stop = end if i < 0 else i + 1
        out = self._data[self._pos:stop]
        self._pos = stop
        return out

    def __iter__(self):
        return self

    def __next__(self):
        line = self.readline()
        if line == "":
            raise StopIteration
        return line

    # -- writing -------------------------------------------------------------------------
    def write(self, s):
        if self._closed:
            raise SimClosedFile("I/O operation on closed file.")
        self._writes += 1
        self.fs.w.count("sim.writes")
        if self.fs.write_error_at is not None and self.fs.total_writes + 1 == self.fs.write_error_at:
            self.fs.total_writes += 1
            self.fs.w.count("fault.write_error")
            raise SimOSError(errno.ENOSPC, "simulated: no space left on device")
        self.fs.total_writes += 1
        if getattr(self, "sim_encoding", None):
            s = _recode(s, self.sim_encoding, getattr(self, "sim_errors", None), False)
        self._buf.append(s)
        self.fs.written_log.setdefault(self.sim_name, []).append(s)
        if "\n" in s and self.line_buffered:
            self.flush()
        return len(s)

    def flush(self):
        if self._buf and not self._closed_for_flush():
            tail = getattr(self, "_keep_tail", None)
            if tail is None:
                self.fs.files[self.sim_name] = self.fs.files.get(self.sim_name, "") + "".join(self._buf)
            else:
                # opened through os.open without O_TRUNC: what is written replaces the old bytes from offset 0, the rest
                # of the old content stays
                self._written = getattr(self, "_written", "") + "".join(self._buf)
                self.fs.files[self.sim_name] = self._written + tail[len(self._written):]
            self._buf = []

    def _closed_for_flush(self):
        return False

    def close(self):
        if not self._closed:
            if "r" not in self.sim_mode:
                self.flush()
            self._closed = True
            self.fs.open_handles.pop(id(self), None)
            self.fs.closes += 1

    @property
    def closed(self):
        return self._closed

    def __del__(self):
        try:
            self.close()
        except Exception:
            pass

    def __enter__(self):
        return self

    def __exit__(self, *a):
        self.close()


class SimPath(type(Path())):
    """pathlib.Path whose exists() consults the simulated file system for sim:// paths."""

    _fs = None

    def exists(self):
        if is_sim(self) and SimPath._fs is not None:
            return norm(self) in SimPath._fs.files
        return super().exists()


class SimDatetime:
    """Stands in for the ``datetime`` class in the EDIF composer: only now() is used."""

    def __init__(self, clock):
        self.clock = clock

    def now(self):
        return datetime(1970, 1, 1) + timedelta(seconds=self.clock().now_s())


class SimFS:
    def __init__(self, w):
        self.w = w
        self.clear()

    def clear(self):
        self.files = {}
        self.open_handles = {}
        self.fd_table = {}
        self.plans = {}
        self.written_log = {}
        self.write_error_at = None
        self.total_writes = 0
        self.opens = 0
        self.closes = 0
        self.chunk_law = "whole"
        self.chunk_rng = random.Random(0)

    def configure(self, chunk_law, seed):
        self.chunk_law = chunk_law
        self.chunk_rng = random.Random(derive(seed, "chunks"))

    def chunk(self, n):
        law = self.chunk_law
        if law == "whole" or n <= 0:
            return n
        if law == "32768":
            return min(n, 32768)
        hi = 7 if law == "1..7" else 64
        return min(n, self.chunk_rng.randint(1, hi))

    def read_plan(self, name):
        return self.plans.get(name)

    def open(self, path, mode="r", *args, **kwargs):
        if not is_sim(path):
            return builtins.open(path, mode, *args, **kwargs)
        for k, v in zip(("buffering", "encoding", "errors"), args):   # (the positional spelling of open's parameters)
            kwargs.setdefault(k, v)
        name = norm(path)
        self.opens += 1
        self.w.count("sim.opens")
        if "r" in mode:
            if name not in self.files:
                raise SimFileNotFound(errno.ENOENT, "No such simulated file", str(path))
            f = SimFile(self, name, mode, _recode(self.files[name], kwargs.get("encoding"), kwargs.get("errors"), True))
        else:
            if "x" in mode and name in self.files:
                raise SimFileExists(errno.EEXIST, "File exists", str(path))
            if "a" not in mode:
                self.files[name] = ""
                self.written_log[name] = []
            f = SimFile(self, name, mode)
        f.line_buffered = kwargs.get("buffering", -1) == 1
        f.sim_encoding, f.sim_errors = kwargs.get("encoding"), kwargs.get("errors")
        if kwargs.get("encoding"):
            self.w.count("sim.opens_with_encoding")
        self.open_handles[id(f)] = name
        return f

    # -- the os-level way of opening a file (os.open + os.fdopen) ---------------------------------------------
    def os_open(self, path, flags, mode=0o777, **kw):
        if not is_sim(path):
            return os.open(path, flags, mode, **kw)
        name = norm(path)
        if name in self.files:
            if flags & os.O_CREAT and flags & os.O_EXCL:
                raise SimFileExists(errno.EEXIST, "File exists", str(path))
        elif not flags & os.O_CREAT:
            raise SimFileNotFound(errno.ENOENT, "No such simulated file", str(path))
        keep = "" if (flags & os.O_TRUNC or name not in self.files) else self.files[name]
        self.files[name] = keep
        fd = -(1000 + len(self.fd_table))          # simulated descriptors are negative numbers
        self.fd_table[fd] = (name, keep)
        self.w.count("sim.os_opens")
        return fd

    def os_fdopen(self, fd, mode="r", *args, **kwargs):
        if fd not in self.fd_table:
            return os.fdopen(fd, mode, *args, **kwargs)
        name, keep = self.fd_table.pop(fd)
        self.opens += 1
        if "r" in mode and "+" not in mode:
            f = SimFile(self, name, mode, self.files[name])
        else:
            self.written_log[name] = []
            f = SimFile(self, name, mode)
            f._keep_tail = keep
            if not keep:
                self.files[name] = ""
        f.line_buffered = kwargs.get("buffering", -1) == 1
        self.open_handles[id(f)] = name
        return f

    def complete(self, name):
        """Stored text equals the concatenation of everything written to the path since it was opened."""
        return self.files.get(name, "") == "".join(self.written_log.get(name, []))


class SimOs:
    """Stands in for the ``os`` module inside the modules that touch files: everything is the real module's, except
    that open / fdopen of sim:// paths go to the simulated file system."""

    def __init__(self, fs):
        self._fs = fs

    def __getattr__(self, name):
        return getattr(os, name)

    def open(self, path, flags, mode=0o777, **kw):
        return self._fs.os_open(path, flags, mode, **kw)

    def fdopen(self, fd, *args, **kwargs):
        return self._fs.os_fdopen(fd, *args, **kwargs)


_MODULES_OPEN = [
    "spydrnet.parsers.edif.tokenizer", "spydrnet.parsers.verilog.tokenizer",
    "spydrnet.parsers.eblif.eblif_tokenizer", "spydrnet.composers.edif.composer",
    "spydrnet.composers.verilog.composer", "spydrnet.composers.eblif.eblif_composer",
]


def install(w):
    """Inject open / Path / datetime into the six modules that touch files (module globals shadow builtins)."""
    import importlib
    fs = SimFS(w)
    SimPath._fs = fs
    for m in _MODULES_OPEN:
        mod = importlib.import_module(m)
        mod.open = fs.open
        if "os" in mod.__dict__:
            mod.os = SimOs(fs)     # (only modules that use the os module at all)
    importlib.import_module("spydrnet.composers.eblif.eblif_composer").Path = SimPath
    importlib.import_module("spydrnet.composers.edif.composer").datetime = SimDatetime(lambda: w.clock)
    w.fs = fs
    return fs
