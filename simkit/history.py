"""Process-history faults shared by the reader checks (C05 C06 C18).

A reader is used many times in one process.  ``prior_rejected`` builds the events of an *earlier* read of a broken text
(the text under test, cut short or with one closing token removed) that the reader is expected to refuse; the read under
test follows in the same process and must not be influenced by it.  The earlier read is marked ``"prior": True`` and no
oracle judges its outcome.
"""


def prior_rejected(rng, text, path):
    how = rng.choice(["cut", "cut", "drop_close", "garbage"])
    if how == "cut" or len(text) < 8:
        bad = text[:max(1, int(len(text) * rng.uniform(0.3, 0.95)))]
    elif how == "drop_close":
        pos = [i for i, ch in enumerate(text) if ch in ");"]
        if pos:
            i = rng.choice(pos)
            bad = text[:i] + text[i + 1:]
        else:
            bad = text[:len(text) // 2]
    else:
        i = rng.randrange(len(text) // 3, len(text))
        bad = text[:i] + " (( ;; .bogus [ " + text[i:]
    return [{"op": "fs_put", "path": path, "text": bad, "prior": True},
            {"op": "parse", "path": path, "prior": True}]
