"""Virtual step counter for reader calls (DESIGN 1): executed lines of the parser packages.

Uses sys.monitoring (PEP 669) LINE events on the code objects of the three
tokenizer/parser packages only.  The budget trips once and disarms itself, so
finalisers that run while the exception unwinds are not hit again.
"""
import importlib
import sys
import types

MODULES = [
    "spydrnet.parsers.edif.parser", "spydrnet.parsers.edif.tokenizer",
    "spydrnet.parsers.verilog.parser", "spydrnet.parsers.verilog.tokenizer",
    "spydrnet.parsers.verilog.verilog_token_factory", "spydrnet.parsers.verilog.verilog_tokens",
    "spydrnet.parsers.eblif.eblif_parser", "spydrnet.parsers.eblif.eblif_tokenizer",
    "spydrnet.parsers",
]


class StepBudgetExceeded(BaseException):
    """Raised inside the monitored reader when it has executed more lines than its budget."""
    injected = True


class _State:
    count = 0
    budget = None
    armed = False
    installed = False


S = _State()
TOOL = 3


def _codes_of(obj, seen):
    if isinstance(obj, types.CodeType):
        if obj in seen:
            return
        seen.add(obj)
        for c in obj.co_consts:
            if isinstance(c, types.CodeType):
                _codes_of(c, seen)
    elif isinstance(obj, (types.FunctionType,)):
        _codes_of(obj.__code__, seen)
    elif isinstance(obj, (staticmethod, classmethod)):
        _codes_of(obj.__func__, seen)
    elif isinstance(obj, type):
        for v in vars(obj).values():
            _codes_of(v, seen)
    elif isinstance(obj, property):
        for f in (obj.fget, obj.fset, obj.fdel):
            if f is not None:
                _codes_of(f, seen)


def _on_line(code, line):
    S.count += 1
    if S.armed and S.budget is not None and S.count > S.budget:
        S.armed = False
        raise StepBudgetExceeded("reader exceeded %d virtual steps" % S.budget)


def install():
    if S.installed:
        return
    mon = sys.monitoring
    mon.use_tool_id(TOOL, "verif-steps")
    mon.register_callback(TOOL, mon.events.LINE, _on_line)
    seen = set()
    for name in MODULES:
        mod = importlib.import_module(name)
        for v in vars(mod).values():
            if getattr(v, "__module__", None) == name or isinstance(v, types.FunctionType):
                _codes_of(v, seen)
    for c in seen:
        mon.set_local_events(TOOL, c, mon.events.LINE)
    S.installed = True


def start(budget=None):
    install()
    S.count = 0
    S.budget = budget
    S.armed = budget is not None


def stop():
    S.armed = False
    n = S.count
    S.budget = None
    return n
