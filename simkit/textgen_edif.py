"""Abstract designs and an independent EDIF writer (DESIGN 4.3, Appendix B).

Shares no code with spydrnet's composer.  ``gen_design`` draws a design,
``render`` writes it as EDIF 2 0 0 with seeded syntactic freedom, ``expected``
derives what the reader is documented to build from it.
"""

LEGAL_FIRST = "abcdeXYZ"
LEGAL = "abcXYZ019_"


def _ident(r, used, n=None, amp_ok=True):
    """A fresh identifier, unique ignoring case within ``used``."""
    for _ in range(100):
        s = r.choice(LEGAL_FIRST) + "".join(r.choice(LEGAL) for _ in range(n or r.randint(0, 4)))
        if amp_ok and r.random() < 0.08:
            s = "&" + r.choice("019_") + s
        # never of the form stem_<digits>_ (that spells a bus bit)
        import re
        if re.search(r"_\d+_$", s):
            continue
        if s.lower() not in used:
            used.add(s.lower())
            return s
    raise RuntimeError("identifier space exhausted")


def _orig(r, ident, used_names, plain=False):
    """Original name for an identifier: the identifier itself, or a different string (-> rename)."""
    x = r.random()
    if x < 0.5:
        name = ident
    elif 0.6 <= x < 0.66 and used_names and not plain:
        # a name with a wildcard character in it, chosen so that - read as a pattern - it would match a sibling that
        # was named earlier (names are free text: "mult*" is a name, not a pattern)
        e = sorted(used_names)[r.randrange(len(used_names))]
        name = r.choice([e[:1] + "*", e[:-1] + "?" if len(e) > 1 else e + "?", "*", e + "*"])
    elif x < 0.6 and ident.swapcase() != ident:
        # the original name differs from the identifier in letter case only:  (rename xp_clk "XP_CLK")
        name = r.choice([ident.upper(), ident.swapcase(), ident.capitalize()])
    elif plain:
        name = r.choice(["", "n.", "sig_"]) + ident + r.choice(["", "$x", ".q", "/p"])
    else:
        name = r.choice(["", "\\", "n.", "sig "]) + ident + r.choice(["", "$x", ".q", " w", "/p"])
    import re
    if re.search(r"\[\d+\]$", name):
        name += "x"
    while name in used_names:
        name += "_"
    used_names.add(name)
    return name


def _cross_name(r, items, rate=0.25):
    """Sometimes give one element the ORIGINAL NAME that is another (renamed) sibling's IDENTIFIER: references go by
    identifier, and a reader that looks names up first would pick the wrong sibling."""
    if len(items) < 2 or r.random() >= rate:
        return
    renamed = [b for b in items if b.get("name") != b["id"]]
    if not renamed:
        return
    b = r.choice(renamed)
    others = [a for a in items if a is not b and a["id"].lower() != b["id"].lower()]
    if not others or any(x.get("name") == b["id"] for x in items):
        return
    r.choice(others)["name"] = b["id"]


def gen_design(r, cfg):
    nlib = cfg.get("n_libs", r.choice([1, 1, 2, 3]))
    libs = []
    lib_ids = set()
    lib_names = set()
    all_cells = []   # (lib index, cell)
    for li in range(nlib):
        lid = _ident(r, lib_ids)
        lib = {"id": lid, "name": _orig(r, lid, lib_names), "external": r.random() < 0.15 and li == 0, "cells": []}
        cell_ids, cell_names = set(), set()
        ncell = r.randint(1, cfg.get("max_cells", 3))
        for ci in range(ncell):
            cid = _ident(r, cell_ids)
            twin = None
            if li > 0 and all_cells and r.random() < cfg.get("twin_cell_rate", 0.25):
                # cell identifiers are unique per library only: a cell of the same identifier (perhaps in another
                # letter case) as a cell of an earlier library, with ports of the same identifiers
                t = r.choice([c for l_, c in all_cells if l_ != li] or [None])
                if t is not None:
                    cand = t["id"] if r.random() < 0.5 else t["id"].swapcase()
                    if cand.lower() not in cell_ids:
                        cell_ids.discard(cid.lower())
                        cid = cand
                        cell_ids.add(cid.lower())
                        twin = t
            cell = {"id": cid, "name": _orig(r, cid, cell_names), "ports": [], "instances": [], "nets": []}
            pids, pnames = set(), set()
            twin_pids = [p["id"] for p in twin["ports"]] if twin else []
            for _ in range(r.randint(0 if r.random() < 0.1 else 1, cfg.get("max_ports", 3))):
                pid = _ident(r, pids)
                if twin_pids and r.random() < 0.8:
                    cand = twin_pids.pop(0)
                    if cand.lower() not in pids:
                        pids.discard(pid.lower())
                        pid = cand
                        pids.add(pid.lower())
                width = r.choice([1, 1, 1, 2, 3, 4])
                array = width > 1 or r.random() < 0.15
                port = {"id": pid, "dir": r.choice(["INPUT", "OUTPUT", "INOUT"]), "width": width, "array": array}
                if array and r.random() < 0.6:
                    lo = r.choice([0, 0, 1, 3])
                    hi = lo + width - 1
                    port["name"] = "%s[%d:%d]" % (pid, hi, lo) if r.random() < 0.8 else "%s[%d:%d]" % (pid, lo, hi)
                    port["lsb"] = lo
                    pnames.add(port["name"])
                else:
                    port["name"] = _orig(r, pid, pnames)
                    port["lsb"] = 0
                cell["ports"].append(port)
            # instances of earlier cells (same library: earlier in list; other libraries: lower index)
            cands = list(all_cells)
            if cands and r.random() < cfg.get("hier_rate", 0.75):
                iids, inames = set(), set()
                for _ in range(r.randint(1, cfg.get("max_insts", 3))):
                    tl, tc = r.choice(cands)
                    iid = _ident(r, iids)
                    inst = {"id": iid, "name": _orig(r, iid, inames), "of": (tl, tc["id"]), "props": []}
                    for _ in range(r.choice([0, 0, 1, 2])):
                        pk = _ident(r, set(), 3)
                        val = r.choice(["8'h0F", "hello world", "", "a(b)", 3, 0, -12, 99999999999, True, False,
                                        # white space at the edges of a string is part of the value
                                        " 8'h00", "ab  ", " ",
                                        # long strings as tools write them (paths, wide INIT values, build stamps)
                                        "C:/Users/someone/Documents/project_x/sources/very/long/path/to/a_file.v",
                                        "256'h" + "0" * 60 + "FF00", "Built on 'Thu Dec  6 23:38:27 MST 2018' by tool (x)"])
                        pr = {"id": pk, "value": val}
                        if r.random() < 0.3:
                            pr["orig"] = pk + "[0]"
                        inst["props"].append(pr)
                    cell["instances"].append(inst)
            _cross_name(r, cell["instances"])
            # nets
            free = []
            for p in cell["ports"]:
                for b in range(p["width"]):
                    free.append(("port", p["id"], b))
            for inst in cell["instances"]:
                tcell = _find_cell(libs + [lib], all_cells, inst["of"], lib, li)
                for p in tcell["ports"]:
                    for b in range(p["width"]):
                        free.append(("pin", inst["id"], p["id"], b))
            r.shuffle(free)
            nids, nnames = set(pids), set()
            for _ in range(r.randint(0, cfg.get("max_nets", 4))):
                bus = r.random() < 0.45
                nid = _ident(r, nids, amp_ok=not bus)
                if bus:
                    width = r.randint(1, 4)
                    lsb = r.choice([0, 0, 1, 2, 7])
                    nm2 = _orig(r, nid, nnames, plain=True)
                    if r.random() < 0.25:
                        # a row of a two-dimensional signal: the bus's own name ends in an index ("row[1]"), its bits
                        # are "row[1][0]" ...; siblings "row[0]", "row[1]" share the part before the first bracket
                        rows = [x for x in nnames if x.endswith("]") and "[" in x]
                        base2 = rows[0][:rows[0].index("[")] if rows and r.random() < 0.7 else nid
                        for k2 in range(6):
                            cand = "%s[%d]" % (base2, k2)
                            if cand not in nnames:
                                nnames.discard(nm2)
                                nm2 = cand
                                nnames.add(nm2)
                                break
                    net = {"id": nid, "name": nm2, "bus": True, "lsb": lsb, "width": width, "bits": []}
                    for b in range(width):
                        present = r.random() < 0.8
                        eps = []
                        if present:
                            for _ in range(r.choice([0, 1, 2, 2, 3])):
                                if free:
                                    eps.append(free.pop())
                        net["bits"].append(eps if present else None)
                    if all(b is None for b in net["bits"]):
                        net["bits"][0] = []
                else:
                    net = {"id": nid, "name": _orig(r, nid, nnames), "bus": False, "lsb": 0, "width": 1, "bits": [[]]}
                    for _ in range(r.choice([0, 1, 2, 2, 3, 4])):
                        if free:
                            net["bits"][0].append(free.pop())
                cell["nets"].append(net)
            lib["cells"].append(cell)
            all_cells.append((li, cell))
        _cross_name(r, lib["cells"], 0.2)    # a cell NAMED like a renamed sibling's identifier (cellRefs go by identifier)
        libs.append(lib)
    _cross_name(r, libs, 0.2)                # the same among the libraries (libraryRefs go by identifier)
    # top: a cell nobody instantiates if possible, else the last one
    used = set((inst["of"]) for _, c in all_cells for inst in c["instances"])
    roots = [(li, c) for li, c in all_cells if (li, c["id"]) not in used]
    tl, tc = r.choice(roots) if roots else all_cells[-1]
    did = _ident(r, set())
    return {"id": did, "name": did if r.random() < 0.6 else did + " design", "libraries": libs,
            "top": (tl, tc["id"]), "design_id": _ident(r, set()), "design_name": None}


def _find_cell(libs, all_cells, of, cur_lib, cur_li):
    li, cid = of
    for l2, c in all_cells:
        if l2 == li and c["id"] == cid:
            return c
    for c in cur_lib["cells"]:
        if c["id"] == cid and li == cur_li:
            return c
    raise KeyError(of)


# ---------------------------------------------------------------------------------------------
# rendering
# ---------------------------------------------------------------------------------------------
class Renderer:
    def __init__(self, r, cfg):
        self.r = r
        self.cfg = cfg
        self.kwcase = cfg.get("kwcase", r.choice(["lower", "camel", "upper", "mixed"]))
        self.refcase = cfg.get("refcase", r.random() < 0.5)
        self.ws = cfg.get("ws", r.choice(["plain", "plain", "wild"]))

    def kw(self, s):
        m = self.kwcase
        if m == "lower":
            return s.lower()
        if m == "upper":
            return s.upper()
        if m == "mixed":
            return "".join(c.upper() if self.r.random() < 0.5 else c.lower() for c in s)
        return s

    def ref(self, ident):
        """A reference may use any letter case (EDIF identifiers are case insensitive)."""
        if self.refcase and self.r.random() < 0.5:
            return ident.swapcase()
        return ident

    def sp(self):
        if self.ws == "wild":
            return self.r.choice([" ", "  ", "\n", "\t", " \n  ", "\r\n"])
        return " "

    def namedef(self, ident, name):
        if name == ident and self.r.random() < 0.9:
            return ident
        return "(%s%s%s%s\"%s\")" % (self.kw("rename"), self.sp(), ident, self.sp(), name)

    def comment(self):
        if self.r.random() < self.cfg.get("comment_rate", 0.15):
            if self.r.random() < 0.15:
                return "(%s)%s" % (self.kw("comment"), self.sp())      # a comment without any string at all
            return "(%s \"%s\")%s" % (self.kw("comment"), self.r.choice(["c", "a (b) c", "x;y", "", ""]), self.sp())
        return ""

    def prop(self, p):
        nd = p["id"] if "orig" not in p else "(%s %s \"%s\")" % (self.kw("rename"), p["id"], p["orig"])
        v = p["value"]
        if isinstance(v, bool):
            tv = "(%s (%s))" % (self.kw("boolean"), self.kw("true") if v else self.kw("false"))
        elif isinstance(v, int):
            tv = "(%s %d)" % (self.kw("integer"), v)
        else:
            tv = "(%s \"%s\")" % (self.kw("string"), v)
        return "(%s %s %s)" % (self.kw("property"), nd, tv)

    def render(self, d):
        r = self.r
        out = []
        w = out.append
        w("(%s %s" % (self.kw("edif"), self.namedef(d["id"], d["name"])))
        w("(%s 2 0 0)" % self.kw("edifVersion"))
        w("(%s 0)" % self.kw("edifLevel"))
        w("(%s (%s 0)%s)" % (self.kw("keywordMap"), self.kw("keywordLevel"), self.comment().strip()))
        if r.random() < 0.7:
            w("(%s (%s (%s 2020 1 2 3 4 5)%s%s))" % (
                self.kw("status"), self.kw("written"), self.kw("timeStamp"),
                " (%s \"tool\" (%s \"1.0\"))" % (self.kw("program"), self.kw("version")) if r.random() < 0.5 else "",
                " (%s \"me\")" % self.kw("author") if r.random() < 0.3 else ""))
        design_pos = r.choice(["end", "end", "middle"]) if len(d["libraries"]) > 1 else "end"
        tl, tcid = d["top"]
        design = "(%s %s (%s %s (%s %s)))" % (
            self.kw("design"), self.namedef(d["design_id"], d.get("design_name") or d["design_id"]),
            self.kw("cellRef"), self.cref(tcid), self.kw("libraryRef"), self.lref(d["libraries"][tl]["id"]))
        for li, lib in enumerate(d["libraries"]):
            w(self.library(d, li, lib))
            if design_pos == "middle" and li == tl and li < len(d["libraries"]) - 1:
                w(design)
                design_pos = "done"
            w(self.comment())
        if design_pos != "done":
            w(design)
        w(")")
        sep = "\n" if self.ws == "plain" else None
        if sep:
            return sep.join(x for x in out if x) + "\n"
        return "".join(x + self.sp() for x in out if x)

    # references to cells / libraries in design construct keep exact case unless told otherwise
    def cref(self, ident):
        return self.ref(ident) if self.cfg.get("design_refcase", True) else ident

    def lref(self, ident):
        return self.ref(ident) if self.cfg.get("design_refcase", True) else ident

    def library(self, d, li, lib):
        kw = "external" if lib["external"] else "library"
        s = ["(%s %s" % (self.kw(kw), self.namedef(lib["id"], lib["name"])),
             "(%s 0)" % self.kw("edifLevel"),
             "(%s (%s))" % (self.kw("technology"), self.kw("numberDefinition"))]
        for cell in lib["cells"]:
            s.append(self.cell(d, li, lib, cell))
            s.append(self.comment())
        s.append(")")
        return self.sp().join(x for x in s if x)

    def cell(self, d, li, lib, cell):
        r = self.r
        s = ["(%s %s (%s %s)" % (self.kw("cell"), self.namedef(cell["id"], cell["name"]), self.kw("cellType"),
                                 self.kw("GENERIC")),
             "(%s %s (%s %s)" % (self.kw("view"), self.cfg.get("view", "netlist"), self.kw("viewType"),
                                 self.kw("NETLIST")),
             "(%s" % self.kw("interface")]
        for p in cell["ports"]:
            nd = self.namedef(p["id"], p["name"])
            if p["array"]:
                nd = "(%s %s %d)" % (self.kw("array"), nd, p["width"])
            s.append("(%s %s (%s %s)%s)" % (self.kw("port"), nd, self.kw("direction"), self.kw(p["dir"]),
                                            " " + self.comment().strip() if r.random() < 0.1 else ""))
        s.append(")")
        if cell["instances"] or cell["nets"] or r.random() < 0.3:
            s.append("(%s" % self.kw("contents"))
            for inst in cell["instances"]:
                tl, tcid = inst["of"]
                cr = "(%s %s" % (self.kw("cellRef"), self.ref(tcid))
                if tl != li or r.random() < 0.5:
                    cr += " (%s %s)" % (self.kw("libraryRef"), self.ref(d["libraries"][tl]["id"]))
                cr += ")"
                s.append("(%s %s (%s %s %s)%s)" % (
                    self.kw("instance"), self.namedef(inst["id"], inst["name"]), self.kw("viewRef"),
                    self.ref(self.cfg.get("view", "netlist")), cr,
                    # (a comment may stand in front of, or between, the properties of an instance)
                    "".join((" " + self.comment().strip() if r.random() < 0.5 else "") + " " + self.prop(p)
                            for p in inst["props"])))
            netitems = []
            for net in cell["nets"]:
                if net["bus"]:
                    for b, eps in enumerate(net["bits"]):
                        if eps is None:
                            continue
                        idx = net["lsb"] + b
                        netitems.append(("%s_%d_" % (net["id"], idx), "%s[%d]" % (net["name"], idx), eps))
                else:
                    netitems.append((net["id"], net["name"], net["bits"][0]))
            r.shuffle(netitems)
            for nid, nname, eps in netitems:
                js = []
                for ep in eps:
                    js.append(self.portref(d, li, cell, ep))
                s.append("(%s %s (%s%s))" % (self.kw("net"), self.namedef(nid, nname), self.kw("joined"),
                                            "".join(" " + j for j in js)))
            s.append(")")
        s.append("))")
        return self.sp().join(s)

    def portref(self, d, li, cell, ep):
        if ep[0] == "port":
            port = [p for p in cell["ports"] if p["id"] == ep[1]][0]
            tgt = self.ref(port["id"])
            if port["array"]:
                tgt = "(%s %s %d)" % (self.kw("member"), tgt, ep[2])
            return "(%s %s)" % (self.kw("portRef"), tgt)
        inst = [i for i in cell["instances"] if i["id"] == ep[1]][0]
        tcell = cell_of(d, inst["of"])
        port = [p for p in tcell["ports"] if p["id"] == ep[2]][0]
        tgt = self.ref(port["id"])
        if port["array"]:
            tgt = "(%s %s %d)" % (self.kw("member"), tgt, ep[3])
        return "(%s %s (%s %s))" % (self.kw("portRef"), tgt, self.kw("instanceRef"), self.ref(inst["id"]))


def cell_of(d, of):
    li, cid = of
    return [c for c in d["libraries"][li]["cells"] if c["id"] == cid][0]


def render(d, r, cfg):
    return Renderer(r, cfg).render(d)


# ---------------------------------------------------------------------------------------------
# what the reader is documented to build
# ---------------------------------------------------------------------------------------------
def expected(d):
    libs = {}
    for li, lib in enumerate(d["libraries"]):
        defs = {}
        for cell in lib["cells"]:
            ports = []
            for p in cell["ports"]:
                ports.append((p["name"], {"INPUT": "IN", "OUTPUT": "OUT", "INOUT": "INOUT"}[p["dir"]], p["width"],
                              bool(p["array"]), p["lsb"] if p["array"] else 0, p["id"]))
            cables = {}
            for net in cell["nets"]:
                if net["bus"]:
                    present = [b for b, e in enumerate(net["bits"]) if e is not None]
                    lo, hi = min(present), max(present)
                    bits = []
                    for b in range(lo, hi + 1):
                        eps = net["bits"][b] or []
                        bits.append(tuple(_ep(d, cell, e) for e in eps))
                    cables[net["name"]] = (hi - lo + 1, True, net["lsb"] + lo, tuple(bits), net["id"])
                else:
                    cables[net["name"]] = (1, False, 0, (tuple(_ep(d, cell, e) for e in net["bits"][0]),), net["id"])
            insts = {}
            for inst in cell["instances"]:
                tl, tcid = inst["of"]
                tlib = d["libraries"][tl]
                tcell = cell_of(d, inst["of"])
                props = None
                if inst["props"]:
                    pl = []
                    for p in inst["props"]:
                        rec = {"identifier": p["id"], "value": p["value"]}
                        if "orig" in p:
                            rec["original_identifier"] = p["orig"]
                        pl.append(rec)
                    props = pl
                insts[inst["name"]] = ((tlib["name"], tcell["name"]), props, inst["id"])
            defs[cell["name"]] = {"ports": tuple(ports), "cables": cables, "instances": insts, "id": cell["id"]}
        libs[lib["name"]] = {"defs": defs, "id": lib["id"], "external": bool(lib["external"])}
    tl, tcid = d["top"]
    tcell = cell_of(d, d["top"])
    return {"name": d["name"], "id": d["id"], "libs": libs,
            "top": (d.get("design_name") or d["design_id"], (d["libraries"][tl]["name"], tcell["name"]))}


def _ep(d, cell, e):
    if e[0] == "port":
        port = [p for p in cell["ports"] if p["id"] == e[1]][0]
        return ("port", port["name"], e[2])
    inst = [i for i in cell["instances"] if i["id"] == e[1]][0]
    tcell = cell_of(d, inst["of"])
    port = [p for p in tcell["ports"] if p["id"] == e[2]][0]
    return ("inst", inst["name"], port["name"], e[3])
