"""Naming oracle (DESIGN 5.5): scans, legality, and observable lookup answers."""
import re

import spydrnet as sdn
from spydrnet.global_state import global_service

from ..world import kind_of

KEYS = (".NAME", "EDIF.identifier")

# scope: parent kind -> [(child kind, list accessor, class, public getter)]
SCOPES = {
    "netlist": [("library", "libraries", sdn.Library, sdn.get_libraries)],
    "library": [("definition", "definitions", sdn.Definition, sdn.get_definitions)],
    "definition": [("port", "ports", sdn.Port, sdn.get_ports),
                   ("cable", "cables", sdn.Cable, sdn.get_cables),
                   ("instance", "children", sdn.Instance, sdn.get_instances)],
}


def edif_identifier_legal(s):
    """EDIF identifier grammar, written from the EDIF 2 0 0 rules (not from edif_namespace.py)."""
    if not isinstance(s, str):
        return False
    if s.startswith("&"):
        body = s[1:]
        if not (2 <= len(s) <= 256):
            return False
    else:
        body = s
        if not (1 <= len(s) <= 255):
            return False
        if not s[0].isalpha():
            return False
    return body != "" and all((c.isascii() and c.isalnum()) or c == "_" for c in body)


def event_strings(ev):
    out = []
    for k in ("name", "v"):
        v = ev.get(k)
        if isinstance(v, str):
            out.append(v)
        elif isinstance(v, dict) and isinstance(v.get("__strsub__"), str):
            out.append(v["__strsub__"])
    p = ev.get("props")
    if isinstance(p, dict):
        out.extend(x for x in p.values() if isinstance(x, str))
    return out


def lookup_answers(objs, extra_values=()):
    """Observable answers of exact-name lookups for every scope in the closure."""
    ans = {}
    for o in objs:
        k = kind_of(o)
        for ck, acc, cls, getter in SCOPES.get(k, ()):
            vals = set(extra_values)
            for c in getattr(o, acc):
                for key in KEYS:
                    v = c.get(key)
                    if isinstance(v, str):
                        vals.add(v)
            for key in KEYS:
                for v in vals:
                    r = global_service.lookup(o, cls, key, v)
                    ans[(id(o), ck, key, v)] = None if r is None else id(r)
    return ans
