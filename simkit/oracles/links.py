"""C01: containment and pin-wire links are mutually consistent (DESIGN 5.1)."""
from ..world import kind_of
from ..violation import Violation

# parent kind, list accessor, child kind, back-pointer accessor
CONTAIN = (
    ("netlist", "libraries", "library", "netlist"),
    ("library", "definitions", "definition", "library"),
    ("definition", "ports", "port", "definition"),
    ("definition", "cables", "cable", "definition"),
    ("definition", "children", "instance", "parent"),
    ("port", "pins", "ipin", "port"),
    ("cable", "wires", "wire", "cable"),
)
_BY_PARENT = {}
_BY_CHILD = {}
for pk, acc, ck, back in CONTAIN:
    _BY_PARENT.setdefault(pk, []).append((acc, ck, back))
    _BY_CHILD[ck] = (pk, acc, back)


def _count(seq, x):
    n = 0
    for y in seq:
        if y is x:
            n += 1
    return n


def check_links(objs, disc, name_of, P="C01"):
    for o in objs:
        k = kind_of(o)
        for acc, ck, back in _BY_PARENT.get(k, ()):
            lst = list(getattr(o, acc))
            seen = set()
            for c in lst:
                if id(c) in seen:
                    raise Violation("%s.contain.%s.duplicate" % (P, acc), disc,
                                    "%s lists %s twice" % (name_of(o), name_of(c)))
                seen.add(id(c))
                if getattr(c, back, None) is not o:
                    raise Violation("%s.contain.%s.missing_backptr" % (P, acc), disc,
                                    "%s lists %s whose .%s is %s" % (
                                        name_of(o), name_of(c), back, name_of(getattr(c, back, None))))
        if k in _BY_CHILD:
            pk, acc, back = _BY_CHILD[k]
            p = getattr(o, back)
            if p is not None:
                n = _count(getattr(p, acc), o)
                if n != 1:
                    raise Violation("%s.contain.%s.stale_backptr" % (P, acc), disc,
                                    "%s.%s is %s which lists it %d times" % (name_of(o), back, name_of(p), n))
        if k in ("ipin", "opin"):
            w = o.wire
            if w is not None:
                n = _count(w.pins, o)
                if n != 1:
                    raise Violation("%s.conn.pin_not_in_wire" % P, disc,
                                    "%s.wire is %s which lists it %d times" % (name_of(o), name_of(w), n))
        elif k == "wire":
            seen = set()
            for p in o.pins:
                if id(p) in seen:
                    raise Violation("%s.conn.duplicate_in_wire" % P, disc,
                                    "%s lists %s twice" % (name_of(o), name_of(p)))
                seen.add(id(p))
                if p.wire is not o:
                    raise Violation("%s.conn.wire_lists_foreign_pin" % P, disc,
                                    "%s lists %s whose .wire is %s" % (name_of(o), name_of(p), name_of(p.wire)))


def reorder_subject(w, ev):
    """(object, accessor) when the event is a reorder assignment."""
    m = {"set_libraries": "libraries", "set_definitions": "definitions", "set_ports": "ports",
         "set_cables": "cables", "set_children": "children", "set_pins": "pins", "set_wires": "wires",
         "set_wire_pins": "pins"}
    acc = m.get(ev["op"])
    if acc is None:
        return None
    o = w.h(ev["on"])
    if o is None:
        return None
    return o, acc, sorted(id(x) for x in getattr(o, acc)), list(getattr(o, acc))


def check_reorder(before, disc, name_of, P="C01"):
    if before is None:
        return
    o, acc, ids, keepalive = before
    after = sorted(id(x) for x in getattr(o, acc))
    if after != ids:
        raise Violation("%s.reorder.not_permutation" % P, disc,
                        "%s.%s changed membership (%d -> %d members)" % (name_of(o), acc, len(ids), len(after)))
