"""Independent elaborator (DESIGN 5.6): occurrences, hierarchical wires, electrical nets.

Reads the netlist through plain accessors only and shares no code with
spydrnet's HRef / get_h* / uniquify / flatten.
"""
from ..violation import Violation


class UF:
    def __init__(self):
        self.p = {}

    def add(self, x):
        self.p.setdefault(x, x)

    def find(self, x):
        p = self.p
        r = x
        while p[r] != r:
            r = p[r]
        while p[x] != r:
            p[x], x = r, p[x]
        return r

    def union(self, a, b):
        self.add(a)
        self.add(b)
        ra, rb = self.find(a), self.find(b)
        if ra != rb:
            self.p[ra] = rb

    def classes(self):
        out = {}
        for x in self.p:
            out.setdefault(self.find(x), set()).add(x)
        return list(out.values())


MAX_OCC = 4000


class Elab:
    """Elaboration of netlist.top_instance.

    occ        : list of occurrences, each a tuple of Instance objects starting with the top instance
    hwires     : set of (occurrence tuple, wire)
    uf         : union-find over hwires (ids) joined through instance port boundaries
    """

    def __init__(self, netlist, leaf_pred=None):
        self.netlist = netlist
        self.top = netlist.top_instance
        self.occ = []
        self.keep = []
        self.uf = UF()
        self.hw = {}      # key -> (occ, wire)
        if leaf_pred is None:
            leaf_pred = lambda d: len(d.children) == 0 and len(d.cables) == 0
        self.leaf_pred = leaf_pred
        if self.top is None or self.top.reference is None:
            return
        stack = [(self.top,)]
        while stack:
            path = stack.pop()
            self.occ.append(path)
            if len(self.occ) > MAX_OCC:
                raise OverflowError("design too large for the elaborator")
            d = path[-1].reference
            if d is None:
                continue
            for cab in d.cables:
                for w in cab.wires:
                    self._hw(path, w)
            for child in d.children:
                if any(child is x for x in path):
                    raise OverflowError("recursive hierarchy")
                cref = child.reference
                sub = path + (child,)
                if cref is None:
                    stack.append(sub)  # an unreferenced instance still is an occurrence (a dead end)
                else:
                    for port in cref.ports:
                        for ip in port.pins:
                            op = child.pins.get(ip)
                            if op is None:
                                continue
                            ow, iw = op.wire, ip.wire
                            if ow is not None and iw is not None:
                                self.uf.union(self._hw(path, ow), self._hw(sub, iw))
                    stack.append(sub)

    def _hw(self, path, wire):
        key = (tuple(id(i) for i in path), id(wire))
        if key not in self.hw:
            self.hw[key] = (path, wire)
            self.uf.add(key)
        return key

    # -- views ---------------------------------------------------------------------
    def is_leaf_occ(self, path):
        d = path[-1].reference
        return d is not None and self.leaf_pred(d)

    def leaf_occurrences(self):
        return [p for p in self.occ if len(p) > 1 and self.is_leaf_occ(p)]

    @staticmethod
    def names(path):
        return tuple(i.name for i in path[1:])

    def net_of(self, path, wire):
        """All hierarchical wires electrically joined with (path, wire)."""
        key = (tuple(id(i) for i in path), id(wire))
        if key not in self.hw:
            return set()
        r = self.uf.find(key)
        return set(k for k in self.hw if self.uf.find(k) == r)

    def endpoint_partition(self, port_key=None):
        """Partition of endpoints (leaf pin bits, top port bits) into electrical nets.

        Endpoints are name based: ('pin', instance-name path, port key, bit) and
        ('top', port key, bit).  Unconnected endpoints are singletons.
        """
        if port_key is None:
            port_key = lambda port, idx: port.name if port.name is not None else "#%d" % idx
        groups = {}
        singles = []
        if self.top is None or self.top.reference is None:
            return frozenset()
        topd = self.top.reference
        for pi, port in enumerate(topd.ports):
            for bi, ip in enumerate(port.pins):
                ep = ("top", port_key(port, pi), bi)
                if ip.wire is not None:
                    groups.setdefault(self.uf.find(self._hw((self.top,), ip.wire)), set()).add(ep)
                else:
                    singles.append(ep)
        for path in self.leaf_occurrences():
            inst = path[-1]
            parent = path[:-1]
            for pi, port in enumerate(inst.reference.ports):
                for bi, ip in enumerate(port.pins):
                    ep = ("pin", self.names(path), port_key(port, pi), bi)
                    op = inst.pins.get(ip)
                    if op is not None and op.wire is not None:
                        groups.setdefault(self.uf.find(self._hw(parent, op.wire)), set()).add(ep)
                    else:
                        singles.append(ep)
        parts = [frozenset(g) for g in groups.values()]
        parts.extend(frozenset([s]) for s in singles)
        return frozenset(parts)

    def leaf_table(self):
        """name path -> (leaf definition object, copy of instance data without bookkeeping keys)."""
        out = {}
        for p in self.leaf_occurrences():
            out[self.names(p)] = p[-1].reference
        return out

    def name_tree(self):
        return frozenset(self.names(p) for p in self.occ)


def partition_diff(a, b):
    """Human-readable first difference between two endpoint partitions."""
    ea = set(x for g in a for x in g)
    eb = set(x for g in b for x in g)
    if ea != eb:
        return "endpoints differ: only before %s, only after %s" % (sorted(ea - eb, key=repr)[:3],
                                                                    sorted(eb - ea, key=repr)[:3])
    ga = {x: g for g in a for x in g}
    gb = {x: g for g in b for x in g}
    for x in sorted(ea, key=repr):
        if ga[x] != gb[x]:
            if gb[x] - ga[x]:
                return "merged: %r is now connected to %r" % (x, sorted(gb[x] - ga[x], key=repr)[0])
            return "split: %r lost its connection to %r" % (x, sorted(ga[x] - gb[x], key=repr)[0])
    return None
