"""C02: instances mirror their definition (DESIGN 5.2)."""
from ..world import kind_of
from ..violation import Violation

import spydrnet as sdn


def check_mirror(objs, disc, name_of, P="C02"):
    defs = [o for o in objs if kind_of(o) == "definition"]
    for o in objs:
        k = kind_of(o)
        if k == "instance":
            ref = o.reference
            for d in defs:
                member = any(r is o for r in d.references)
                if d is ref and not member:
                    raise Violation(P + ".refset.missing", disc,
                                    "%s.reference is %s but is not in its reference set" % (name_of(o), name_of(d)))
                if d is not ref and member:
                    raise Violation(P + ".refset.stale", disc,
                                    "%s is in the reference set of %s but references %s" % (
                                        name_of(o), name_of(d), name_of(ref)))
            want = []
            if ref is not None:
                for p in ref.ports:
                    want.extend(p.pins)
            have = list(o.pins.keys())
            wid = set(id(x) for x in want)
            hid = set(id(x) for x in have)
            if len(have) != len(hid):
                raise Violation(P + ".pins.extra", disc, "%s has duplicate keys" % name_of(o))
            for x in want:
                if id(x) not in hid:
                    raise Violation(P + ".pins.missing", disc,
                                    "%s has no outer pin for inner pin %s of %s" % (name_of(o), name_of(x), name_of(ref)))
            for x in have:
                if id(x) not in wid:
                    raise Violation(P + ".pins.extra", disc,
                                    "%s keeps an outer pin for %s which %s does not have" % (
                                        name_of(o), name_of(x), name_of(ref)))
            for ip, op in o.pins.items():
                if kind_of(op) != "opin" or op.instance is not o:
                    raise Violation(P + ".pins.wrong_instance", disc,
                                    "outer pin of %s names instance %s" % (name_of(o), name_of(getattr(op, "instance", None))))
                if op.inner_pin is not ip:
                    raise Violation(P + ".pins.wrong_inner", disc,
                                    "outer pin of %s keyed by %s names inner pin %s" % (
                                        name_of(o), name_of(ip), name_of(op.inner_pin)))
                if o.pins[ip] is not op:
                    raise Violation(P + ".pins.lookup_inner", disc, "lookup by inner pin on %s" % name_of(o))
                proxy = sdn.OuterPin.from_instance_and_inner_pin(o, ip)
                if o.pins[proxy] is not op or proxy not in o.pins:
                    raise Violation(P + ".pins.lookup_proxy", disc, "lookup by equal outer pin on %s" % name_of(o))
        elif k == "definition":
            for r in o.references:
                if kind_of(r) != "instance" or r.reference is not o:
                    raise Violation(P + ".refset.stale", disc,
                                    "%s lists %s which references %s" % (
                                        name_of(o), name_of(r), name_of(getattr(r, "reference", None))))
        elif k == "wire":
            for p in o.pins:
                if kind_of(p) == "opin":
                    i, ip = p.instance, p.inner_pin
                    if i is None or ip is None or i.pins.get(ip) is not p:
                        raise Violation(P + ".dead_outer_pin_on_wire", disc,
                                        "%s lists an outer pin that its instance (%s) no longer carries" % (
                                            name_of(o), name_of(i)))
        elif k == "opin":
            if o.wire is not None:
                i, ip = o.instance, o.inner_pin
                if i is None or ip is None or i.pins.get(ip) is not o:
                    raise Violation(P + ".dead_outer_pin_on_wire", disc,
                                    "a dropped outer pin still reports wire %s" % name_of(o.wire))


def repoint_pre(w, ev):
    """Before instance.reference = D2: remember (port idx, pin idx) -> (outer pin, wire)."""
    if ev["op"] != "set_reference" or ev.get("x") is None:
        return None
    i = w.h(ev["on"])
    d2 = w.h(ev["x"])
    if i is None or d2 is None or i.reference is None:
        return None
    d1 = i.reference
    if len(d1.ports) != len(d2.ports) or any(len(a.pins) != len(b.pins) for a, b in zip(d1.ports, d2.ports)):
        return None
    m = {}
    for pi, p in enumerate(d1.ports):
        for qi, ip in enumerate(p.pins):
            op = i.pins.get(ip)
            if op is None:
                return None  # mirror already broken; check_mirror reports that
            m[(pi, qi)] = (op, op.wire)
    return i, d2, m


def repoint_post(pre, outcome, disc, name_of, P="C02"):
    if pre is None:
        return
    i, d2, m = pre
    if outcome != "ok":
        raise Violation(P + ".repoint.refused", disc,
                        "re-pointing %s to a shape-compatible definition was refused (%s)" % (name_of(i), outcome))
    for pi, p in enumerate(d2.ports):
        for qi, ip in enumerate(p.pins):
            op0, w0 = m[(pi, qi)]
            op1 = i.pins.get(ip)
            if op1 is not op0 or (op1.wire is not w0):
                raise Violation(P + ".repoint.lost_connection", disc,
                                "pin (%d,%d) of %s changed wire or outer pin object" % (pi, qi, name_of(i)))
            if w0 is not None and not any(x is op1 for x in w0.pins):
                raise Violation(P + ".repoint.lost_connection", disc, "wire no longer lists the pin")


def check_self_contained(netlist, objs_of_netlist, disc, name_of, P):
    """Every pointer reachable from the netlist lands inside the same netlist."""
    inside = set()
    for lib in netlist.libraries:
        inside.add(id(lib))
        for d in lib.definitions:
            inside.add(id(d))
    top = netlist.top_instance
    for lib in netlist.libraries:
        for d in lib.definitions:
            for c in d.children:
                if c.reference is None or id(c.reference) not in inside:
                    raise Violation(P + ".self_contained.reference", disc,
                                    "%s references a definition outside the netlist" % name_of(c))
            for r in d.references:
                ok = (r is top) or (r.parent is not None and id(r.parent) in inside)
                if not ok:
                    raise Violation(P + ".self_contained.refset", disc,
                                    "%s is referenced by %s which is outside the netlist" % (name_of(d), name_of(r)))
            for cab in d.cables:
                for wr in cab.wires:
                    for p in wr.pins:
                        if kind_of(p) == "ipin":
                            okp = p.port is not None and p.port.definition is d
                        else:
                            okp = p.instance is not None and p.instance.parent is d
                        if not okp:
                            raise Violation(P + ".self_contained.wire_endpoint", disc,
                                            "a wire of %s reaches a pin outside its definition" % name_of(d))
    if top is not None:
        if top.reference is None or id(top.reference) not in inside:
            raise Violation(P + ".self_contained.top_reference", disc,
                            "top instance references a definition outside the netlist")


def check_wire_endpoints(netlist, disc, name_of, P):
    """Every pin listed by a wire of a definition of the netlist is a pin of one of that definition's ports or of
    one of its current children (a wire never keeps the pin of an instance that was taken out of the definition),
    and every connected pin of a port or child of the definition sits on a wire of a cable OF that definition."""
    for lib in netlist.libraries:
        for d in lib.definitions:
            pins = [ip for port in d.ports for ip in port.pins] + [op for c in d.children for op in c.pins.values()]
            for p in pins:
                wr = p.wire
                if wr is not None and (wr.cable is None or wr.cable.definition is not d):
                    raise Violation(P + ".pin_on_foreign_wire", disc,
                                    "a pin of %s is connected to a wire whose cable %s" % (
                                        name_of(d), "does not exist" if wr.cable is None else
                                        "belongs to %s" % ("no definition" if wr.cable.definition is None
                                                           else name_of(wr.cable.definition))))
            for cab in d.cables:
                for wr in cab.wires:
                    for p in wr.pins:
                        if kind_of(p) == "ipin":
                            okp = p.port is not None and p.port.definition is d
                        else:
                            okp = p.instance is not None and p.instance.parent is d
                        if not okp:
                            raise Violation(P + ".wire_endpoint", disc,
                                            "wire %s[%d] of %s lists a pin that belongs to neither a port nor a child "
                                            "of that definition" % (cab.name, list(cab.wires).index(wr), name_of(d)))
