"""A small independent s-expression reader for EDIF text (DESIGN 5.8)."""


def tokens(text):
    out = []
    i, n = 0, len(text)
    while i < n:
        c = text[i]
        if c in "()":
            out.append(c)
            i += 1
        elif c == '"':
            j = text.index('"', i + 1)
            out.append(text[i:j + 1].replace("\n", "").replace("\r", ""))
            i = j + 1
        elif c in " \t\r\n":
            i += 1
        else:
            j = i
            while j < n and text[j] not in '() \t\r\n"':
                j += 1
            out.append(text[i:j])
            i = j
    return out


def read(text):
    toks = tokens(text)
    stack = [[]]
    for t in toks:
        if t == "(":
            stack.append([])
        elif t == ")":
            x = stack.pop()
            stack[-1].append(x)
        else:
            stack[-1].append(t)
    if len(stack) != 1 or len(stack[0]) != 1:
        raise ValueError("unbalanced EDIF text")
    return stack[0][0]


def head(x):
    return x[0].lower() if isinstance(x, list) and x and isinstance(x[0], str) else None


def children(x, kw):
    return [c for c in x[1:] if head(c) == kw]


def name_of(x):
    """identifier and original name of a nameDef (plain, (rename id "orig"), (array nameDef n))."""
    if isinstance(x, str):
        return x, x
    h = head(x)
    if h == "rename":
        return x[1], x[2][1:-1]
    if h in ("array", "member"):
        return name_of(x[1])
    raise ValueError("not a nameDef: %r" % (x,))


def summary(text):
    """libraries -> cells -> ports (identifier, width) and nets (identifier, list of (port id, member, instance id))."""
    root = read(text)
    out = {"name": name_of(root[1]), "libraries": [], "design": None}
    for lib in root[2:]:
        if head(lib) in ("library", "external"):
            cells = []
            for cell in children(lib, "cell"):
                cid = name_of(cell[1])
                ports, insts, nets = [], [], []
                for view in children(cell, "view"):
                    for itf in children(view, "interface"):
                        for p in children(itf, "port"):
                            nd = p[1]
                            width = int(nd[2]) if head(nd) == "array" else 1
                            dirs = [c[1].upper() for c in children(p, "direction")]
                            ports.append((name_of(nd), width, head(nd) == "array", dirs[0] if dirs else None))
                    for cont in children(view, "contents"):
                        for i in children(cont, "instance"):
                            ref = None
                            for vr in children(i, "viewref"):
                                for cr in children(vr, "cellref"):
                                    lr = children(cr, "libraryref")
                                    ref = (cr[1], lr[0][1] if lr else None)
                            insts.append((name_of(i[1]), ref))
                        for nt in children(cont, "net"):
                            eps = []
                            for j in children(nt, "joined"):
                                for pr in children(j, "portref"):
                                    tgt = pr[1]
                                    member = None
                                    if head(tgt) == "member":
                                        member = int(tgt[2])
                                        pid = tgt[1]
                                    else:
                                        pid = tgt
                                    ir = children(pr, "instanceref")
                                    eps.append((pid, member, ir[0][1] if ir else None))
                            nets.append((name_of(nt[1]), eps))
                cells.append((cid, ports, insts, nets))
            out["libraries"].append((name_of(lib[1]), cells))
        elif head(lib) == "design":
            cr = children(lib, "cellref")[0]
            lr = children(cr, "libraryref")
            out["design"] = (name_of(lib[1]), cr[1], lr[0][1] if lr else None)
    return out
