"""Canonical forms of netlists (DESIGN 5.7)."""
from ..world import kind_of


def data_items(o, drop=()):
    return tuple(sorted((k, repr(v)) for k, v in o.data.items() if k not in drop))


def _index_maps(netlist):
    defpos = {}
    for li, lib in enumerate(netlist.libraries):
        for di, d in enumerate(lib.definitions):
            defpos[id(d)] = (li, di)
    return defpos


def endpoint(pin, d, defpos):
    """Position-keyed description of a pin as seen from definition d."""
    if kind_of(pin) == "ipin":
        port = pin.port
        if port is None or port.definition is not d:
            return ("foreign_inner",)
        return ("port", list(d.ports).index(port), list(port.pins).index(pin))
    inst = pin.instance
    ip = pin.inner_pin
    if inst is None or ip is None or inst.parent is not d:
        return ("foreign_outer",)
    port = ip.port
    ref = inst.reference
    if port is None or ref is None or port.definition is not ref:
        return ("inst", list(d.children).index(inst), "dangling")
    return ("inst", list(d.children).index(inst), list(ref.ports).index(port), list(port.pins).index(ip))


def positional(netlist, drop=()):
    """Position-keyed structural form (unnamed elements count); used for clones."""
    defpos = _index_maps(netlist)

    def refkey(d):
        if d is None:
            return None
        return defpos.get(id(d), ("external", d.name))

    libs = []
    for lib in netlist.libraries:
        defs = []
        for d in lib.definitions:
            ports = tuple((data_items(p, drop), p.direction.name, bool(p.is_downto), bool(getattr(p, "_is_scalar", p.is_scalar)),
                           p.lower_index, len(p.pins)) for p in d.ports)
            cables = tuple((data_items(c, drop), bool(c.is_downto), bool(getattr(c, "_is_scalar", c.is_scalar)), c.lower_index,
                            tuple(tuple(endpoint(x, d, defpos) for x in wr.pins) for wr in c.wires))
                           for c in d.cables)
            kids = tuple((data_items(i, drop), refkey(i.reference), len(i.pins)) for i in d.children)
            defs.append((data_items(d, drop), ports, cables, kids))
        libs.append((data_items(lib, drop), tuple(defs)))
    top = netlist.top_instance
    if top is None:
        t = None
    elif top.parent is not None and id(top.parent) in defpos:
        t = ("child", defpos[id(top.parent)], list(top.parent.children).index(top))
    else:
        t = ("standalone", refkey(top.reference), data_items(top, drop))
    return (data_items(netlist, drop), tuple(libs), t)


def first_diff(a, b, path="netlist"):
    """Path of the first difference between two nested tuple forms."""
    if type(a) != type(b):
        return "%s: %r != %r" % (path, a, b)
    if isinstance(a, tuple):
        if len(a) != len(b):
            return "%s: length %d != %d" % (path, len(a), len(b))
        for i, (x, y) in enumerate(zip(a, b)):
            d = first_diff(x, y, "%s[%d]" % (path, i))
            if d:
                return d
        return None
    if a != b:
        return "%s: %r != %r" % (path, a, b)
    return None


def owned_ids(netlist):
    """ids of everything a netlist owns through containment (+ top instance, + outer pins)."""
    out = set()

    def add_inst(i):
        out.add(id(i))
        for op in i.pins.values():
            out.add(id(op))
    out.add(id(netlist))
    for lib in netlist.libraries:
        out.add(id(lib))
        for d in lib.definitions:
            out.add(id(d))
            for p in d.ports:
                out.add(id(p))
                for x in p.pins:
                    out.add(id(x))
            for c in d.cables:
                out.add(id(c))
                for x in c.wires:
                    out.add(id(x))
            for i in d.children:
                add_inst(i)
    if netlist.top_instance is not None:
        add_inst(netlist.top_instance)
    return out


def is_self_contained(netlist):
    """Every pointer reachable from the netlist lands in something it owns."""
    from ..model import scan
    own = owned_ids(netlist)
    objs, _ = scan([netlist])
    return all(id(o) in own for o in objs)


# ------------------------------------------------------------------------------------------
# name-level form (EDIF round trip, comparer, readers)
# ------------------------------------------------------------------------------------------
def _pin_ep(pin, d):
    if kind_of(pin) == "ipin":
        port = pin.port
        if port is None:
            return ("port", None, None)
        return ("port", port.name, list(port.pins).index(pin))
    inst, ip = pin.instance, pin.inner_pin
    if inst is None or ip is None or ip.port is None:
        return ("inst", None, None, None)
    return ("inst", inst.name, ip.port.name, list(ip.port.pins).index(ip))


def named_definition(d, with_ids=True, props_key="EDIF.properties", port_lsb=False, cable_order=False):
    ports = []
    for p in d.ports:
        rec = [p.name, p.direction.name, len(p.pins), bool(p.is_array)]
        if port_lsb:
            rec.append(p.lower_index)
        if with_ids:
            rec.append(p.get("EDIF.identifier"))
        ports.append(tuple(rec))
    cables = {}
    order = []
    for c in d.cables:
        bits = tuple(tuple(_pin_ep(x, d) for x in w.pins) for w in c.wires)
        rec = (len(c.wires), bool(c.is_array), c.lower_index if c.is_array else 0, bits,
               c.get("EDIF.identifier") if with_ids else None)
        if c.name in cables:
            cables[(c.name, len(order))] = rec
        else:
            cables[c.name] = rec
        order.append(c.name)
    insts = {}
    for i in d.children:
        r = i.reference
        ref = None if r is None else ((r.library.name if r.library is not None else None), r.name)
        pr = i.get(props_key)
        rec = (ref, _freeze(pr), i.get("EDIF.identifier") if with_ids else None)
        if i.name in insts:
            insts[(i.name, len(insts))] = rec
        else:
            insts[i.name] = rec
    out = {"ports": tuple(ports), "cables": cables, "instances": insts,
           "id": d.get("EDIF.identifier") if with_ids else None}
    if cable_order:
        out["cable_order"] = tuple(order)
    return out


def _freeze(v):
    if isinstance(v, dict):
        return tuple(sorted((k, _freeze(x)) for k, x in v.items()))
    if isinstance(v, (list, tuple)):
        return tuple(_freeze(x) for x in v)
    if isinstance(v, bool):
        return ("bool", v)
    if isinstance(v, int):
        return ("int", v)
    if isinstance(v, float):
        return ("float", v)
    return v


def named(netlist, **kw):
    libs = {}
    for lib in netlist.libraries:
        defs = {}
        for d in lib.definitions:
            defs[d.name] = named_definition(d, **kw)
        libs[lib.name] = {"defs": defs, "id": lib.get("EDIF.identifier") if kw.get("with_ids", True) else None}
    top = netlist.top_instance
    t = None
    if top is not None:
        r = top.reference
        t = (top.name, None if r is None else ((r.library.name if r.library is not None else None), r.name))
    return {"name": netlist.name, "libs": libs, "top": t}


def dict_diff(a, b, path=""):
    """First difference between two nested dict/tuple forms, as text."""
    if isinstance(a, dict) and isinstance(b, dict):
        for k in a:
            if k not in b:
                return "%s/%r: missing after" % (path, k)
        for k in b:
            if k not in a:
                return "%s/%r: only after" % (path, k)
        for k in a:
            d = dict_diff(a[k], b[k], "%s/%s" % (path, k))
            if d:
                return d
        return None
    if isinstance(a, tuple) and isinstance(b, tuple):
        if len(a) != len(b):
            return "%s: length %d vs %d" % (path, len(a), len(b))
        for i, (x, y) in enumerate(zip(a, b)):
            d = dict_diff(x, y, "%s[%d]" % (path, i))
            if d:
                return d
        return None
    if a != b or type(a) != type(b):
        return "%s: %r vs %r" % (path, a, b)
    return None


def outgoing_closed(netlist):
    """Every pointer that leaves an element owned by the netlist lands in something the netlist owns.

    Reference-set members are not looked at: instances outside the netlist may reference its definitions (for
    example the children of a definition that was removed from its library); a copy simply does not have them.
    """
    own = owned_ids(netlist)
    insts = [i for lib in netlist.libraries for d in lib.definitions for i in d.children]
    top = netlist.top_instance
    if top is not None and id(top) in own and not any(top is i for i in insts):
        insts.append(top)
    for i in insts:
        if i.reference is not None and id(i.reference) not in own:
            return False
        for ip, op in i.pins.items():
            if id(ip) not in own or (op.wire is not None and id(op.wire) not in own):
                return False
    for lib in netlist.libraries:
        for d in lib.definitions:
            for p in d.ports:
                for ip in p.pins:
                    if ip.wire is not None and id(ip.wire) not in own:
                        return False
            for c in d.cables:
                for wr in c.wires:
                    if any(id(x) not in own for x in wr.pins):
                        return False
    return True
