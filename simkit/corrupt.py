"""Fault plans over a text (DESIGN 4.4): truncation, token faults, dangling references, unsupported constructs."""
import re

from .oracles.sexpr import tokens as edif_tokens

_V_TOKEN = re.compile(r'//[^\n]*|/\*.*?\*/|"[^"\n]*"|\\\S+\s|`[^\n]*|\(\*|\*\)|[A-Za-z_][A-Za-z0-9_$]*|\d+\'[bBhHdDoO][0-9a-fA-FxXzZ_]+|\d+|\S',
                      re.S)


def tokenize(fmt, text):
    """Token list and the separator to re-join with."""
    if fmt == "edf":
        return edif_tokens(text), " "
    if fmt == "v":
        return [m.group(0) for m in _V_TOKEN.finditer(text)], " "
    out = []
    for line in text.split("\n"):
        out.extend(line.split())
        out.append("\n")
    return out, " "


def join(fmt, toks):
    if fmt == "eblif":
        s = " ".join(toks)
        return s.replace(" \n ", "\n").replace("\n ", "\n").replace(" \n", "\n")
    if fmt == "v":
        # line comments must end their line; directives too
        return " ".join(t + "\n" if (t.startswith("//") or t.startswith("`")) else t for t in toks)
    return " ".join(toks)


EDIF_REFS = ("cellref", "libraryref", "instanceref", "portref")
EDIF_UNSUPPORTED = ['(userData x)', '(portBundle pb (listOfPorts))', '(viewMap)', '(offPageConnector o)',
                    '(parameter p)', '(symbol)', '(page p)', '(netBundle nb)']


def edif_index(toks):
    """(cells per library, cellRef sites) of an EDIF token list, by a scan that knows only the nesting.

    cells: {library id (lower case): set of cell ids (lower case)};
    sites: (position of the cell name token, position of the library name token or None, id of the enclosing library)
    """
    def name_at(i):
        # NAME or ( rename NAME "original" )
        if i < len(toks) and toks[i] == "(" and i + 2 < len(toks) and toks[i + 1].lower() == "rename":
            return toks[i + 2].lower()
        return toks[i].lower() if i < len(toks) else None
    cells, sites = {}, []
    cur = None
    for i, t in enumerate(toks):
        if t != "(" or i + 2 >= len(toks):
            continue
        kw = toks[i + 1].lower()
        if kw in ("library", "external"):
            cur = name_at(i + 2)
            cells.setdefault(cur, set())
        elif kw == "cell" and cur is not None:
            cells[cur].add(name_at(i + 2))
        elif kw == "cellref" and toks[i + 2] not in ("(", ")"):
            lib_pos = None
            if i + 5 < len(toks) and toks[i + 3] == "(" and toks[i + 4].lower() == "libraryref":
                lib_pos = i + 5
            sites.append((i + 2, lib_pos, cur))
    return cells, sites


def plan(r, fmt, ntok, nchar, kinds=None):
    """Draw one fault plan: a list of fault items."""
    kinds = kinds or ["truncate_tok", "truncate_char", "delete", "duplicate", "replace", "dangling", "unsupported",
                      "read_error"]
    k = r.choice(kinds)
    if fmt == "v" and k == "replace" and r.random() < 0.4:
        # a replaced token of a particular kind: the module an instantiation names becomes another module of the
        # file (self-instancing modules, mutual recursion, a second root ...)
        return [{"f": "module_swap", "n": r.randint(0, 50), "m": r.randint(0, 50)}]
    if fmt == "edf" and k == "replace" and r.random() < 0.6:
        # a replaced token of a particular kind: the quoted original name of one rename becomes that of another (two
        # siblings with one name but different identifiers), or one identifier becomes another one of the file
        return [{"f": "class_swap", "cls": r.choice(["string", "string", "ident"]), "n": r.randint(0, 200), "m": r.randint(0, 200)}]
    if k == "truncate_char" and fmt in ("edf", "v") and r.random() < 0.3:
        # the text ends INSIDE a quoted string (the longer strings first): an unterminated string token
        return [{"f": "truncate_in_string", "n": r.randint(0, 200), "frac": r.choice([0.5, 0.8, 0.95, 1.0]),
                 "longest": r.random() < 0.6}]
    if k == "truncate_tok":
        return [{"f": k, "at": r.randint(0, max(0, ntok - 1))}]
    if k == "truncate_char":
        return [{"f": k, "at": r.randint(0, max(0, nchar - 1))}]
    if k in ("delete", "duplicate"):
        return [{"f": k, "at": r.randrange(max(1, ntok))}]
    if k == "replace":
        return [{"f": k, "at": r.randrange(max(1, ntok)), "src": r.randrange(max(1, ntok))}]
    if k == "dangling":
        if r.random() < 0.3:
            # a reference to something that IS declared, only not where the reference says
            return [{"f": "dangling_swap", "n": r.randint(0, 50), "m": r.randint(0, 50), "how": r.choice(["library", "cell"])}]
        return [{"f": k, "n": r.randint(0, 50), "which": r.choice(EDIF_REFS)}]
    if k == "unsupported":
        if r.random() < 0.3:
            # an unsupported FORM of a supported construct: the array-member form of an instance reference
            return [{"f": "unsupported_member", "n": r.randint(0, 200), "idx": r.choice([0, 0, 1, 3])}]
        return [{"f": k, "n": r.randint(0, 50), "what": r.randrange(len(EDIF_UNSUPPORTED))}]
    return [{"f": "read_error", "at": r.randint(1, 6)}]


def unterminated(fmt, toks):
    """Does this token prefix end INSIDE a construct that needs a closing token (an EDIF form, a Verilog module or
    primitive)?  Only decided for texts without conditional compilation; None = not decided."""
    if fmt == "edf":
        depth = sum(1 for t in toks if t == "(") - sum(1 for t in toks if t == ")")
        return depth > 0 and len(toks) > 0
    if fmt == "v":
        if any(t.startswith("`if") or t.startswith("`el") or t.startswith("`endif") for t in toks):
            return None
        opened = sum(1 for t in toks if t in ("module", "primitive", "macromodule"))
        closed = sum(1 for t in toks if t in ("endmodule", "endprimitive"))
        return opened > closed
    return None


def apply(fmt, text, plan_items):
    """Return (new text, read-plan for SimFS, facts) for a fault plan."""
    toks, _ = tokenize(fmt, text)
    if len(plan_items) == 1 and plan_items[0]["f"] == "truncate_tok" and 0 < plan_items[0]["at"] < len(toks):
        full_ok = unterminated(fmt, toks) is False
        if full_ok and unterminated(fmt, toks[:plan_items[0]["at"]]):
            facts_unterminated = True
        else:
            facts_unterminated = False
    else:
        facts_unterminated = False
    read_plan = {}
    facts = {"applied": [], "must_raise": False, "unterminated": facts_unterminated}
    changed = False
    for it in plan_items:
        f = it["f"]
        if f == "truncate_tok":
            toks = toks[:it["at"]]
            changed = True
            facts["applied"].append(f)
        elif f == "truncate_char":
            base = join(fmt, toks) if changed else text
            read_plan["truncate_at"] = min(it["at"], len(base))
            facts["applied"].append(f)
        elif f == "truncate_in_string":
            pos = [i for i, t in enumerate(toks) if len(t) > 2 and t.startswith('"')]
            if pos:
                if it["longest"]:
                    m = max(len(toks[i]) for i in pos)
                    pos = [i for i in pos if len(toks[i]) >= 0.8 * m]
                k = pos[it["n"] % len(pos)]
                cut = max(1, min(len(toks[k]) - 1, int(len(toks[k]) * it["frac"])))   # never past the closing quote
                toks = toks[:k] + [toks[k][:cut]]
                changed = True
                facts["applied"].append("truncate_in_string")
        elif f == "delete" and toks:
            del toks[it["at"] % len(toks)]
            changed = True
            facts["applied"].append(f)
        elif f == "duplicate" and toks:
            k = it["at"] % len(toks)
            toks.insert(k, toks[k])
            changed = True
            facts["applied"].append(f)
        elif f == "replace" and toks:
            k = it["at"] % len(toks)
            toks[k] = toks[it["src"] % len(toks)]
            changed = True
            facts["applied"].append(f)
        elif f == "class_swap" and fmt == "edf":
            if it["cls"] == "string":
                pos = [i for i, t in enumerate(toks) if t.startswith('"') and i > 1 and toks[i - 2].lower() == "rename"]
            else:
                pos = [i for i, t in enumerate(toks) if i > 0 and toks[i - 1].lower() == "rename"]
            if len(pos) > 1:
                k = pos[it["n"] % len(pos)]
                # prefer a source close by (the same cell): nets and instances of one cell sit next to each other
                off = 4 if it["cls"] == "string" else 3          # ( net ( rename id "name" )
                same = [j for j in pos if toks[j] != toks[k] and j >= off and k >= off
                        and toks[j - off].lower() == toks[k - off].lower()]
                near = sorted((abs(j - k), j) for j in (same or [j for j in pos if toks[j] != toks[k]]))[:4]
                if near:
                    toks[k] = toks[near[it["m"] % len(near)][1]]
                    changed = True
                    facts["applied"].append("replace_same_class")
        elif f == "module_swap" and fmt == "v":
            names = [toks[i + 1] for i, t in enumerate(toks[:-1]) if t == "module"]
            uses = [i for i, t in enumerate(toks) if t in names and i > 0 and toks[i - 1] != "module"]
            if uses and len(names) > 1:
                k = uses[it["n"] % len(uses)]
                others = [x for x in names if x != toks[k]]
                toks[k] = others[it["m"] % len(others)]
                changed = True
                facts["applied"].append("replace")
        elif f == "dangling" and fmt == "edf":
            pos = [i for i, t in enumerate(toks[:-1]) if t.lower() == it["which"] and toks[i + 1] not in ("(", ")")]
            if pos:
                k = pos[it["n"] % len(pos)]
                toks[k + 1] = "zz_undeclared_%d" % it["n"]
                changed = True
                facts["applied"].append("dangling_" + it["which"])
                facts["must_raise"] = True
        elif f == "dangling_swap" and fmt == "edf":
            cells, sites = edif_index(toks)
            opts = []
            for cell_pos, lib_pos, cur in sites:
                x = toks[cell_pos].lower()
                lib = toks[lib_pos].lower() if lib_pos is not None else cur
                if it["how"] == "library" and lib_pos is not None:
                    # another declared library that has no cell of this name
                    for l2 in sorted(cells):
                        if l2 != lib and x not in cells[l2]:
                            opts.append((lib_pos, l2, "dangling_libraryref_swapped"))
                elif it["how"] == "cell" and lib in cells:
                    # a cell that exists, but in another library only
                    for l2 in sorted(cells):
                        for x2 in sorted(cells[l2]):
                            if l2 != lib and x2 not in cells[lib]:
                                opts.append((cell_pos, x2, "dangling_cellref_swapped"))
            if opts:
                pos, new_name, what = opts[(it["n"] * 51 + it["m"]) % len(opts)]
                toks[pos] = new_name
                changed = True
                facts["applied"].append(what)
                facts["must_raise"] = True
        elif f == "unsupported_member" and fmt == "edf":
            pos = [i for i, t in enumerate(toks[:-1]) if t.lower() == "instanceref" and toks[i + 1] not in ("(", ")")]
            if pos:
                k = pos[it["n"] % len(pos)]
                toks[k + 1:k + 2] = ["(", "member", toks[k + 1], str(it["idx"]), ")"]
                changed = True
                facts["applied"].append("unsupported")
                facts["must_raise"] = True
        elif f == "unsupported" and fmt == "edf":
            # insert an unsupported construct right after an "(interface" or "(contents" or "(cell ... (view"
            pos = [i for i, t in enumerate(toks) if t.lower() in ("interface", "contents")]
            if pos:
                k = pos[it["n"] % len(pos)]
                what = EDIF_UNSUPPORTED[it["what"]]
                ok_here = {"interface": (1, 4, 5), "contents": (3, 6, 7)}[toks[k].lower()]
                if it["what"] in ok_here:
                    ins = edif_tokens(what)
                    toks[k + 1:k + 1] = ins
                    changed = True
                    facts["applied"].append("unsupported")
                    facts["must_raise"] = True
        elif f == "read_error":
            read_plan["read_error_at"] = it["at"]
            facts["applied"].append(f)
    if len(plan_items) != 1:
        # a second fault may have removed or cut off the dangling reference / unsupported construct again
        facts["must_raise"] = False
    return (join(fmt, toks) if changed else text), read_plan, facts
